"""C22 — every server reply is exactly one well-formed RESP frame (encoder kernel)."""
from ..driver import Plan, H
from .resp_common import RESP_SLICE, MOD, INJ

ATTR = "#[kani::unwind(%d)]\n"  # formatting is the subject here: core::fmt is NOT stubbed


def plan(tier):
    p = Plan("C22")
    p.mode = "slice"
    p.slice = RESP_SLICE
    p.injections = INJ
    gen = []
    maxl = 4 if tier == "quick" else 5
    for l in range(0, maxl + 1):
        for err in (1, 0):
            fn = "c22_%s_len%d" % ("error" if err else "simple", l)
            gen.append("vk_proof! {\n" + ATTR % (l + 6) + "fn %s() { reply_line::<%d>(%s); }\n}\n" % (fn, l, "true" if err else "false"))
            p.add(MOD, H(fn, {"reply": "Error" if err else "SimpleString", "text": "%d arbitrary ASCII characters incl. CR, LF" % l}, "reply_line"))
        fn = "c22_bulk_len%d" % l
        gen.append("vk_proof! {\n" + ATTR % (l + 8) + "fn %s() { reply_bulk::<%d>(); }\n}\n" % (fn, l))
        p.add(MOD, H(fn, {"reply": "BulkString", "payload": "%d arbitrary bytes" % l}, "reply_bulk"))
    gen.append("vk_proof! {\n" + ATTR % 8 + "fn c22_fixed() { reply_fixed(); }\n}\n")
    p.add(MOD, H("c22_fixed", {"reply": "Null, BulkString(None), empty Array"}, "reply_fixed"))
    gen.append("vk_proof! {\n" + ATTR % 12 + "fn c22_integer() { reply_integer(); }\n}\n")
    p.add(MOD, H("c22_integer", {"reply": "Integer", "value": "|i| < 100000"}, "reply_integer"))
    for l in ():  # (reply_array: no verdict in 400 s even for 1-character texts; not scheduled)
        fn = "c22_array_len%d" % l
        gen.append("vk_proof! {\n" + ATTR % (2 * l + 24) + "fn %s() { reply_array::<%d>(); }\n}\n" % (fn, l))
        p.add(MOD, H(fn, {"reply": "Array[Error, SimpleString, Null, BulkString(None)]", "text": "%d arbitrary ASCII characters each" % l}, "reply_array"))
    p.gen["c21_gen.rs"] = "".join(gen)
    p.functions = ["RespValue::encode (all variants)", "RespValue::write_line_text (if present)"]
    p.assumptions = [
        "slice crate: current src/protocol/resp.rs with the real `bytes`/`thiserror`; core::fmt is real (not stubbed)",
        "kernel: the ENCODER. 'decodes as exactly one frame' is decided on the wire bytes: a line reply must have its first "
        "CRLF as its last two bytes (C21's `readline`/`line` families show the decoder ends a line frame at the first CRLF); "
        "bulk replies must have the exact $<len> CRLF <bytes> CRLF layout",
        "reply text = arbitrary ASCII (every character 0..127 incl. CR and LF) of the stated length",
    ]
    p.bound = "text / payload length <= %d, integers |i| < 100000, one array shape" % maxl
    p.not_covered = ("which handler paths put client text into which reply (CommandHandler is async + the whole engine); "
                     "non-ASCII text; longer text")
    p.per_harness_timeout = 900 if tier == 'quick' else 1200
    return p
