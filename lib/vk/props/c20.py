"""C20 — RESP framing survives any TCP chunking and pipelining (decoder loop + encode/decode round trip)."""
from ..driver import Plan, H
from .resp_common import RESP_SLICE, MOD, INJ

NOLINE = "NOLINE"
ATTR = ("#[kani::unwind(%d)]\n#[kani::stub(core::fmt::write, vk_fmt_write)]\n#[kani::stub(std::fmt::format, vk_fmt_format)]\n"
        "#[kani::stub(super::RespValue::read_line, read_line_model)]\n")


class Frame:
    """A frame shape: how to build the value (Rust), its wire length, and the sequence of things the decoder does:
    ('line', offset_in_frame, relative_crlf_pos) for each read_line call, ('need', offset, nbytes) for a bulk body."""

    def __init__(self, name, decl, expr, length, events, descr, wire):
        self.name, self.decl, self.expr, self.length, self.events, self.descr = name, decl, expr, length, events, descr
        self.wire = wire  # list of Rust u8 expressions, the frame's bytes on the wire
        assert len(wire) == length, (name, len(wire), length)


def lit(text):
    return ["b'%s'" % {"\r": "\\r", "\n": "\\n"}.get(ch, ch) for ch in text]


def bulk(n, var):
    return Frame("bulk%d" % n, "let %s: [u8; %d] = kani::any();" % (var, n),
                 "RespValue::BulkString(Some(%s.to_vec()))" % var, n + 6,
                 [("line", 0, 2), ("need", 4, n + 2)], "BulkString(%d arbitrary bytes)" % n,
                 lit("$%d\r\n" % n) + ["%s[%d]" % (var, i) for i in range(n)] + lit("\r\n"))


def integer(v):
    w = len(str(v))
    return Frame("int%s" % str(v).replace("-", "m"), "", "RespValue::Integer(%d)" % v, w + 3, [("line", 0, w + 1)], "Integer(%d)" % v,
                 lit(":%d\r\n" % v))


def simple(n, var):
    decl = ("let %s: [u8; %d] = kani::any(); let mut %s_s = String::with_capacity(%d); "
            "{ let mut i = 0; while i < %d { kani::assume(%s[i] < 128 && %s[i] != b'\\r' && %s[i] != b'\\n'); %s_s.push(%s[i] as char); i += 1; } }"
            % (var, n, var, n, n, var, var, var, var, var))
    return Frame("simple%d" % n, decl, "RespValue::SimpleString(%s_s.clone())" % var, n + 3, [("line", 0, n + 1)],
                 "SimpleString(%d ASCII characters without CR/LF)" % n,
                 lit("+") + ["%s[%d]" % (var, i) for i in range(n)] + lit("\r\n"))


def null():
    return Frame("null", "", "RespValue::Null", 3, [("line", 0, 1)], "Null", lit("_\r\n"))


def nullbulk():
    return Frame("nullbulk", "", "RespValue::BulkString(None)", 5, [("line", 0, 3)], "BulkString(None)", lit("$-1\r\n"))


def array(items):
    off = 4
    ev = [("line", 0, 2)]
    for f in items:
        for e in f.events:
            ev.append((e[0], e[1] + off, e[2]))
        off += f.length
    return Frame("arr_" + "_".join(f.name for f in items), " ".join(f.decl for f in items),
                 "RespValue::Array(vec![%s])" % ", ".join(f.expr for f in items), off, ev,
                 "Array[%s]" % ", ".join(f.descr for f in items),
                 lit("*%d\r\n" % len(items)) + [b for f in items for b in f.wire])


def attempts(frames, start, avail_end):
    """Simulate the decoder loop on stream bytes [start, avail_end): returns (list of per-attempt layouts with their
    expected outcome, new start).  An attempt decodes the frame beginning at `start`."""
    out = []
    pos = start
    idx = 0
    # find frame index at pos
    offs = []
    o = 0
    for f in frames:
        offs.append(o)
        o += f.length
    total = o
    while True:
        if pos == avail_end:
            if pos < total or True:
                out.append(([], "none"))  # empty buffer: Ok(None) before any read_line
            break
        fi = offs.index(pos)
        f = frames[fi]
        avail = avail_end - pos
        layout = []
        complete = True
        for kind, off, arg in f.events:
            if kind == "line":
                # read_line is called on the cursor at frame offset `off`; CRLF occupies off+arg, off+arg+1
                if off + arg + 2 <= avail:
                    layout.append(str(arg))
                else:
                    layout.append(NOLINE)
                    complete = False
                    break
            else:
                if off + arg > avail:
                    complete = False
                    break
        if complete:
            out.append((layout, "value"))
            pos += f.length
        else:
            out.append((layout, "wait"))
            break
    return out, pos


def plan(tier):
    p = Plan("C20")
    p.mode = "slice"
    p.slice = RESP_SLICE
    p.injections = INJ
    gen = []
    streams = [
        ("bulk3", [bulk(3, "d0")]),
        ("arr_bulk1", [array([bulk(1, "d0")])]),
        ("int7", [integer(7)]),
        ("bulk0", [bulk(0, "d0")]),
    ]
    pipelines = [
        ("bulk1_int", [bulk(1, "d0"), integer(-42)]),
        ("null_bulk0", [null(), bulk(0, "d0")]),
        ("arrbulk1_bulk2", [array([bulk(1, "d0")]), bulk(2, "d1")]),
    ]
    if tier != "quick":
        # (streams with negative integers / `$-1`, and arrays of two elements, give no verdict in 20 min through the
        #  BytesMut-backed loop and are not scheduled; nor is the split SimpleString stream — it is covered as a pipeline)
        streams += [
            ("bulk4", [bulk(4, "d0")]),
            ("arr_empty", [array([])]),
            ("bulk2", [bulk(2, "d0")]),
        ]
        pipelines += [
            ("simple2_bulk2", [simple(2, "s0"), bulk(2, "d0")]),
            ("int_null_bulk1", [integer(7), null(), bulk(1, "d0")]),
        ]
    # pipelining: several frames in one read, decoded one after the other from the same cursor
    # (BytesMut::advance between frames does pointer<->integer arithmetic that CBMC does not get through; the
    #  exact-consumption clause of decode() itself is C21's `line`/`bulk`/`array` families)
    for pname, frames in pipelines:
        total = sum(f.length for f in frames)
        fn = "c20_pipeline_%s" % pname
        body = [f.decl for f in frames if f.decl]
        for i, f in enumerate(frames):
            body.append("let v%d = %s;" % (i, f.expr))
        body.append("let s: [u8; %d] = [%s];" % (total, ", ".join(b for f in frames for b in f.wire)))
        body.append("let mut cur: &[u8] = &s[..];")
        left = total
        for i, f in enumerate(frames):
            layout = [str(e[2]) for e in f.events if e[0] == "line"]
            left -= f.length
            body.append("set_layout(&[%s]);" % ", ".join(layout))
            body.append("let r%d = RespValue::decode_frame(&mut cur, 0);" % i)
            body.append("assert!(matches!(&r%d, Ok(Some(x)) if *x == v%d), \"C20 pipelined frame decoded wrongly\");" % (i, i))
            body.append("assert!(cur.len() == %d, \"C20 pipelined frame did not consume exactly itself\");" % left)
        body.append("vk_cover!(true, \"reach\");")
        body.append("std::mem::forget((%s));" % ", ".join(["v%d" % i for i in range(len(frames))] + ["r%d" % i for i in range(len(frames))]))
        gen.append("vk_proof! {\n" + ATTR % (total + 4) + "fn %s() {\n    %s\n}\n}\n" % (fn, "\n    ".join(body)))
        p.add(MOD, H(fn, {"stream": [f.descr for f in frames], "bytes": total, "reads": 1}, "pipeline"))
    for sname, frames in streams:
        total = sum(f.length for f in frames)
        for sp in range(0, total + 1):
            fn = "c20_%s_split%d" % (sname, sp)
            body = []
            for f in frames:
                if f.decl:
                    body.append(f.decl)
            for i, f in enumerate(frames):
                body.append("let v%d = %s;" % (i, f.expr))
            body.append("let s: [u8; %d] = [%s];" % (total, ", ".join(b for f in frames for b in f.wire)))
            body.append("let mut c = Conn::new();")
            # first read
            a1, pos = attempts(frames, 0, sp)
            if sp > 0:
                body.append("c.buf.extend_from_slice(&s[..%d]);" % sp)
            for layout, outcome in a1:
                body.append("{ let more = c.attempt(&[%s]); assert!(more == %s, \"C20 decoder loop: wrong decision on the first read\"); }"
                            % (", ".join(layout), "true" if outcome == "value" else "false"))
            body.append("assert!(c.errors == 0, \"C20 a split well-formed stream produced a protocol error\");")
            # second read
            a2, pos2 = attempts(frames, pos, total)
            if sp < total:
                body.append("c.buf.extend_from_slice(&s[%d..]);" % sp)
            for layout, outcome in a2:
                body.append("{ let more = c.attempt(&[%s]); assert!(more == %s, \"C20 decoder loop: wrong decision on the second read\"); }"
                            % (", ".join(layout), "true" if outcome == "value" else "false"))
            body.append("assert!(c.errors == 0, \"C20 a split well-formed stream produced a protocol error\");")
            body.append("assert!(c.n == %d, \"C20 number of frames decoded\");" % len(frames))
            for i in range(len(frames)):
                body.append("assert!(matches!(c.got(%d), Some(x) if *x == v%d), \"C20 decoded frame differs from the one sent\");" % (i, i))
            body.append("assert!(c.buf.is_empty(), \"C20 bytes left in the buffer after all frames\");")
            body.append("vk_cover!(true, \"reach\");")
            body.append("std::mem::forget((c, %s));" % ", ".join("v%d" % i for i in range(len(frames))))
            gen.append("vk_proof! {\n" + ATTR % (total + 4) + "fn %s() {\n    %s\n}\n}\n" % (fn, "\n    ".join(body)))
            p.add(MOD, H(fn, {"stream": [f.descr for f in frames], "bytes": total, "first_read": sp, "second_read": total - sp},
                         "split"))
    p.gen["c21_gen.rs"] = "".join(gen)
    p.functions = ["RespValue::{encode,decode,decode_frame,decode_bulk_string,decode_array,decode_integer,decode_simple_string,"
                   "decode_null}", "the decode loop's decision skeleton (harness `Conn::attempt`, mirrors handle_connection)"]

    def skeleton_check(tree):
        import os, re
        from ..core import Inconclusive
        src = open(os.path.join(tree, "src/protocol/server.rs")).read()
        m = re.search(r"match RespValue::decode\(&mut buffer\) \{(.*)", src, re.S)
        if not m:
            raise Inconclusive("server.rs: decode loop not found")
        body = m.group(1)
        i_some, i_none = body.find("Ok(Some(value)) =>"), body.find("Ok(None) =>")
        i_inc = body.find("Err(RespError::Incomplete) =>")
        i_err = body.find("Err(e) =>", i_inc) if i_inc >= 0 else -1
        order = [i_some, i_none, i_inc, i_err]
        # both "wait" arms must just leave the decode loop
        waits = re.findall(r"(?:Ok\(None\)|Err\(RespError::Incomplete\)) => \{\s*(?://[^\n]*\n\s*)*break;\s*\}", body)
        if -1 in order or order != sorted(order) or len(waits) < 2:
            raise Inconclusive("server.rs: decode loop arms are not Ok(Some)/Ok(None)/Err(Incomplete)/Err(e) any more")
    p.source_checks.append(skeleton_check)
    p.assumptions = [
        "slice crate: current src/protocol/resp.rs with the real `bytes`/`thiserror`; fmt stubbed",
        "the stream is given as wire bytes (concrete headers, symbolic payload); that encode() produces exactly these bytes for "
        "these values is what C22's harnesses decide (reply_bulk / reply_line / reply_integer), so decode(encode(v)) == v follows "
        "by composition: it is not re-run through core::fmt here (doing so: no verdict in 28 min)",
        "read_line replaced by its specification with the CRLF position given by the shape (checked separately against the "
        "real read_line by C21's `readline` family; the native replay runs the real one)",
        "the connection loop is an async fn over a socket: its decision skeleton (value -> dispatch and continue; Ok(None) or "
        "Err(Incomplete) -> wait for the next read; other Err -> error reply) is restated as `Conn::attempt` and the arms of "
        "src/protocol/server.rs are checked textually on every run (changed => inconclusive)",
        "single-frame streams: two reads (one split point), every split point 0..=|S|, through the decode loop skeleton on a "
        "BytesMut; multi-frame streams (pipelining): one read, frames decoded one after the other from one cursor with "
        "decode_frame (BytesMut::advance between frames does pointer<->integer arithmetic CBMC does not finish: measured)",
    ]
    p.bound = ("split streams: %s; pipelines: %s; payload bytes symbolic (all 256 values)"
               % ("; ".join("%s (%d bytes, every split)" % (n, sum(f.length for f in fr)) for n, fr in streams),
                  "; ".join(n for n, _ in pipelines)))
    p.not_covered = "three or more reads, longer streams, inline commands, the live socket and the dispatch itself"
    p.per_harness_timeout = 900 if tier == 'quick' else 1200
    p.total_timeout = 2700 if tier == 'quick' else 7000
    return p
