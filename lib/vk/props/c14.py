"""C14 — imported snapshots survive restart and crashes during persistence."""
import os
import re

from ..driver import Plan, H
from ..core import Inconclusive, VERIF
from .. import slices

MOD = "snapshot::persist::verif_kani_c14"
ATTR = "#[kani::unwind(%d)]\n#[kani::stub(std::fmt::format, vk_fmt_format_lastpiece)]\n"


def persist_lib_rs(tree):
    p = os.path.join(tree, "src/snapshot/persist.rs")
    src = open(p).read()
    # redirect the environment imports, whatever subset of names they list; everything else stays verbatim
    src, a = re.subn(r"\buse std::fs(::[^;]*)?;", lambda m: "use crate::simfs::fs%s;" % (m.group(1) or ""), src)
    src, b = re.subn(r"\buse std::path(::[^;]*)?;", lambda m: "use crate::simfs::path%s;" % (m.group(1) or ""), src)
    src, c = re.subn(r"\buse std::io(::[^;]*)?;", lambda m: "use crate::simfs::io%s;" % (m.group(1) or ""), src)
    src, d = re.subn(r"\bstd::io::Result<", "crate::simfs::io::Result<", src)
    src, e = re.subn(r"\bstd::(fs|path)::", r"crate::simfs::\1::", src)
    if a < 1 or b < 1:
        raise Inconclusive("persist.rs: no `use std::fs` / `use std::path` import to redirect")
    body = src.split("#[cfg(test)]")[0]
    if re.search(r"OpenOptions|read_dir|tempfile|BufReader|std::io::", body):
        raise Inconclusive("persist.rs uses file-system / io API outside the modelled set")
    open(p, "w").write(src)
    fmt = open(os.path.join(tree, "src/snapshot/format.rs")).read()
    stats = slices.extract_item(fmt, r"^pub struct ImportStats\b", "struct ImportStats")
    fields = re.findall(r"pub (\w+): ([^,\n]+),", stats)
    init = ", ".join("%s: Default::default()" % f for f, _ in fields)
    return ('''#![allow(warnings)]
#[path = "%(verif)s/shims/simfs/simfs.rs"] pub mod simfs;
pub mod graph { pub mod store {
    /// recorder standing in for the graph store: notes the content id the importer was handed
    pub struct GraphStore { pub imported: Option<u8> }
    impl GraphStore { pub fn new() -> Self { GraphStore { imported: None } } }
} }
pub mod snapshot {
    pub mod format {
%(stats)s
    }
    /// recorder standing in for the importer: reads the snapshot bytes it is given; torn/empty content fails
    pub fn import_tenant_with_dedup(store: &mut crate::graph::store::GraphStore, reader: crate::simfs::io::Cursor,
                                    _dedup: &[&str]) -> Result<format::ImportStats, Box<dyn std::error::Error>> {
        let id = match reader.first_byte() { Some(b) => b, None => crate::simfs::EMPTY };
        store.imported = Some(id);
        if id == crate::simfs::EMPTY || id == crate::simfs::GARBAGE {
            return Err(Box::new(crate::simfs::io::Error(3)));
        }
        Ok(format::ImportStats { %(init)s })
    }
    #[path = "%(tree)s/src/snapshot/persist.rs"] pub mod persist;
}
''' % {"verif": VERIF, "tree": tree, "stats": stats, "init": init})


PERSIST_SLICE = {"name": "vslice_persist", "deps": {}, "shims": [], "lib_rs": persist_lib_rs}


def plan(tier):
    p = Plan("C14")
    p.mode = "slice"
    p.slice = PERSIST_SLICE
    p.injections = [("src/snapshot/persist.rs", "c14.rs", "verif_kani_c14", MOD)]
    gen = []
    ks = (1, 2) if tier == "quick" else (1, 2, 3)
    for k in ks:
        for pl in (0, 1):
            fn = "c14_crash_k%d_%s" % (k, "powerloss" if pl else "processcrash")
            gen.append("vk_proof! {\n" + ATTR % 14 + "fn %s() { crash_history(%d, %s); }\n}\n" % (fn, k, "true" if pl else "false"))
            p.add(MOD, H(fn, {"imports": k, "crash_in": "last import, at a symbolic file-system call",
                              "restart_after": "power loss (symbolic survival bits)" if pl else "process crash"}, "crash"))
    for k in ks:
        for pl in (0, 1):
            fn = "c14_retry_k%d_%s" % (k, "powerloss" if pl else "processcrash")
            gen.append("vk_proof! {\n" + ATTR % 14 + "fn %s() { crash_then_retry(%d, %s); }\n}\n" % (fn, k, "true" if pl else "false"))
            p.add(MOD, H(fn, {"imports": k, "crash_in": "last import, at a symbolic file-system call", "then": "restart, the client "
                              "retries the same import (acknowledged), restart again",
                              "restart_after": "power loss (symbolic survival bits)" if pl else "process crash"}, "retry"))
    fn = "c14_clean_k%d" % max(ks)
    gen.append("vk_proof! {\n" + ATTR % 14 + "fn %s() { clean_history(%d); }\n}\n" % (fn, max(ks)))
    p.add(MOD, H(fn, {"imports": max(ks), "restart": "clean, after every import"}, "clean"))
    p.gen["c14_gen.rs"] = "".join(gen)
    p.functions = ["snapshot::persist::{persist_snapshot,restore_persisted_snapshots,snapshot_dir}"]
    p.assumptions = [
        "slice crate: current src/snapshot/persist.rs with `use std::fs::{self, File}` / `use std::path::{Path, PathBuf}` "
        "redirected to shims/simfs, likewise `use std::io::{Cursor, Write}` and the `std::io::Result` in signatures (simfs::io: a "
        "one-byte error code; std::io::Error's vtable recursion does not get through CBMC); function bodies untouched; any "
        "other fs API => inconclusive",
        "simfs = POSIX contract: names->inodes and contents each have a volatile and a durable state; File::sync_all makes an "
        "inode's content durable, sync_all on the directory makes its entries durable; rename atomic; write_all can tear; every "
        "call is a crash point (symbolic call number); process crash keeps the volatile state, power loss keeps per name either "
        "the volatile or the durable entry and may destroy unsynced content (symbolic bits)",
        "GraphStore / import_tenant_with_dedup replaced by a recorder (which content was imported; torn or empty content fails); "
        "snapshot contents abstracted to one byte (the code never looks inside them)",
        "formatting is NOT stubbed here (file names are built with format!)",
    ]
    p.bound = "histories of %s imports, crash at any file-system call of the last one (or none), both crash models" % list(ks)
    p.not_covered = ("the HTTP handler composing imports ('every acknowledged import is present' when several imports were "
                     "made is a property of restore_snapshot_handler + this single-file store); real file systems")
    p.per_harness_timeout = 900 if tier == 'quick' else 1800
    p.total_timeout = 2700 if tier == 'quick' else 6000
    return p
