"""C30 — the column store behaves as a map under every update sequence."""
import os
import re

from ..driver import Plan, H
from ..core import Inconclusive

MOD = "graph::storage::columnar::verif_kani_c30"
ATTR = ("#[kani::unwind(%d)]\n#[kani::stub(core::fmt::write, vk_fmt_write)]\n"
        "#[kani::stub(std::fmt::format, vk_fmt_format)]\n")


def col_lib_rs(tree):
    p = os.path.join(tree, "src/graph/storage/columnar.rs")
    src = open(p).read()
    src, n = re.subn(r"use rustc_hash::FxHashMap;", "use vkcoll::HashMap as FxHashMap;", src)
    if n != 1:
        raise Inconclusive("columnar.rs: `use rustc_hash::FxHashMap;` not found exactly once")
    src, n = re.subn(r"const PROMOTE_MIN_ENTRIES: usize = \d+;", "const PROMOTE_MIN_ENTRIES: usize = 4;", src)
    if n != 1:
        raise Inconclusive("columnar.rs: PROMOTE_MIN_ENTRIES constant not found exactly once")
    open(p, "w").write(src)
    return ("#![allow(warnings)]\npub mod graph {\n"
            "    #[path = \"%s/src/graph/property.rs\"] pub mod property;\n"
            "    #[path = \"%s/src/graph/types.rs\"] pub mod types;\n"
            "    pub use property::{PropertyMap, PropertyValue};\n"
            "    pub mod storage { #[path = \"%s/src/graph/storage/columnar.rs\"] pub mod columnar; }\n}\n" % (tree, tree, tree))


COL_SLICE = {
    "name": "vslice_col",
    "deps": {"serde": '{ version = "1.0", features = ["derive"] }', "serde_json": '"1.0"'},
    "shims": ["vkcoll"],
    "lib_rs": col_lib_rs,
}


def plan(tier):
    p = Plan("C30")
    p.mode = "slice"
    p.slice = COL_SLICE
    p.injections = [("src/graph/storage/columnar.rs", "c30.rs", "verif_kani_c30", MOD)]
    gen = []

    def emit(fn, uw, call, shape, fam):
        gen.append("vk_proof! {\n" + ATTR % uw + "fn %s() { %s }\n}\n" % (fn, call))
        p.add(MOD, H(fn, shape, fam))

    emit("c30_dense_rule", 2, "dense_rule();", {"args": "all 64-bit span/entries, elem_bytes <= 64"}, "dense_rule")
    spans = (1, 2) if tier == "quick" else (1, 2, 3)
    bases = (0, 2) if tier == "quick" else (0, 2, 1 << 40)
    for base in bases:
        for span in spans:
            classes = {}
            if base >= 1:
                classes["below_by_1"] = base - 1
            if base >= 2:
                classes["below_by_many"] = 0
            for s in range(span):
                classes["slot%d" % s] = base + s
            classes["just_above"] = base + span
            classes["above_by_2"] = base + span + 2
            classes["far_above"] = (1 << 62)
            for cname, idx in classes.items():
                bn = "big" if base > 100 else str(base)
                emit("c30_dset_b%s_s%d_%s" % (bn, span, cname), span + 6, "dense_set(%d, %d, %d);" % (base, span, idx),
                     {"state": "Dense", "base": base, "span": span, "written_row": cname}, "dense_set")
                if cname.startswith("slot") or cname in ("just_above", "below_by_1"):
                    emit("c30_drem_b%s_s%d_%s" % (bn, span, cname), span + 4, "dense_remove(%d, %d, %d);" % (base, span, idx),
                         {"state": "Dense", "base": base, "span": span, "removed_row": cname}, "dense_remove")
            if False and base == 2 and span == 1:
                for cname in ("slot0", "just_above", "below_by_1"):
                    for fl in (1, 0):
                        emit("c30_spill_%s_%s" % (cname, "float" if fl else "bool"), span + 8,
                             "column_spill(%d, %d, %d, %s);" % (base, span, classes[cname], "true" if fl else "false"),
                             {"state": "Column::Int(Dense)", "base": base, "span": span, "written_row": cname,
                              "value_type": "Float" if fl else "Boolean"}, "column_spill")
    for base in bases:
        for span in spans:
            bn = "big" if base > 100 else str(base)
            emit("c30_foreach_b%s_s%d" % (bn, span), span + 4, "dense_for_each(%d, %d);" % (base, span),
                 {"state": "Dense", "base": base, "span": span, "op": "for_each (walked by the type spill)"}, "for_each")
    for gap in ((1, 70) if tier == "quick" else (1, 2, 64, 65, 70)):
        emit("c30_grow_words_gap%d" % gap, 64 + gap + 70 + 8, "dense_grow_words(%d);" % gap,
             {"state": "Dense, 64 packed rows (one full bitmap word)", "written_row": "63+%d" % gap}, "grow_words")
    # (the ColumnStore-level `store_step` harness exists in c30.rs but gives no verdict in 15 min: String keys through
    #  the index map plus three set_property calls; it is not scheduled)
    if True:
        emit("c30_rebase_words", 200, "dense_rebase_words();",
             {"state": "Dense, 128 rows at base 64, one hole", "written_row": "0 (rebase by exactly one bitmap word)"}, "rebase_words")
    if False:  # (type-spill harnesses: no verdict in 15 min even for span 1 — PropertyValue drop glue in the spilled map)
      emit("c30_spill_min_bool", 9, "column_spill(0, 1, 0, false);",
         {"state": "Column::Int(Dense), base 0, span 1", "written_row": "slot0 (overwrites a present or absent row)", "value_type": "Boolean"}, "column_spill")
      emit("c30_spill_min_float", 9, "column_spill(0, 1, 1, true);",
         {"state": "Column::Int(Dense), base 0, span 1", "written_row": "just above", "value_type": "Float"}, "column_spill")
    sparse = [([], 5), ([5], 5), ([5], 9), ([5, 6], 7), ([5, 6, 7], 8), ([5, 6, 7], 6), ([5, 6, 9], 1 << 50), ([10, 11, 12], 9)]
    if tier != "quick":
        sparse += [([5, 7, 9], 11), ([5, 6, 7], 4), ([0, 1, 2], 3)]
    for rows, idx in sparse:
        fn = "c30_sset_%s_at_%s" % ("_".join(str(r) for r in rows) or "empty", "far" if idx > 1000 else idx)
        emit(fn, 10, "sparse_set(&[%s], %d);" % (", ".join(str(r) for r in rows), idx),
             {"state": "Sparse", "rows": rows, "written_row": idx, "promotion_threshold": "4 (lowered from 1024 in the scratch copy)"},
             "sparse_set")
    p.gen["c30_gen.rs"] = "".join(gen)
    p.functions = ["ColumnData::{new,get,has,len,set,remove,rebase,demote_to_sparse,maybe_promote,for_each}", "dense_is_smaller",
                   "bit/set_bit/clear_bit", "Column::{set,get,has,remove,promote_to_other}",
                   "ColumnStore::{set_property,remove_property,clear_row,get_property,get_property_keys}"]
    p.assumptions = [
        "slice crate: current columnar.rs + property.rs + types.rs; `use rustc_hash::FxHashMap` redirected to shims/vkcoll "
        "(a finite map with unique keys, 4 slots); PROMOTE_MIN_ENTRIES lowered to 4 in the scratch copy (the 1024-entry "
        "promotion is outside any solver bound; the rule it guards is the same code)",
        "pre-state = arbitrary Dense column satisfying the representation invariant (present.len()==ceil(span/64), "
        "count==popcount, absent slots hold T::default()); the invariant is re-asserted after every step",
        "the written/removed row index is concrete per harness (position class); value, presence bits, stored values and "
        "the probe row are symbolic",
        "T = i64 (Column::Int) — the generic code is instantiated once; Float/Boolean only as spilled values",
        "fmt stubbed; drop glue skipped",
    ]
    p.bound = "Dense: base in %s, span in %s, every position class of the written row; Sparse: <= 3 entries; one step" % (list(bases), list(spans))
    p.not_covered = ("spans above 3 except the packed 64-row growth and 128-row rebase shapes, String columns, ColumnStore beyond two keys and two rows, "
                     "the real 1024-entry promotion threshold, FxHashMap itself")
    p.per_harness_timeout = 900 if tier == 'quick' else 1500
    p.total_timeout = 2700 if tier == 'quick' else 7000
    return p
