"""C10 — property values are ordered by lawful total orders."""
from ..driver import Plan, H

TAGS = {0: "Boolean", 1: "Integer", 2: "Float", 3: "DateTime", 4: "Duration", 5: "Null",
        6: "String0", 7: "String1", 8: "String2", 9: "Vector0", 10: "Vector1", 11: "Vector2",
        12: "Array0", 13: "Array[Int]", 14: "Array[Float]", 15: "Array[Int,Float]",
        16: "Map{}", 17: "Map{k:Int}", 18: "Map{k:Float}", 19: "Array[Null]", 20: "Array[Array[Int]]"}
BUCKET = {0: 0, 1: 1, 2: 1, 3: 3, 4: 7, 5: 8, 6: 2, 7: 2, 8: 2, 9: 6, 10: 6, 11: 6,
          12: 4, 13: 4, 14: 4, 15: 4, 16: 5, 17: 5, 18: 5, 19: 4, 20: 4}
MOD = "graph::property::verif_kani_c10"
HASHSTUB = "#[kani::stub(std::hash::RandomState::new, super::vk_fixed_random_state)]\n"


def plan(tier):
    p = Plan("C10")
    p.injections = [("src/graph/property.rs", "c10.rs", "verif_kani_c10", MOD)]
    scalars = [0, 1, 2, 3, 4, 5, 7]
    if tier == "quick":
        unary = scalars + [6, 8, 10, 13, 14]
        pair_tags = scalars + [10, 14]
        pairs = [(a, b) for a in pair_tags for b in pair_tags]
        # triples: everything inside the numeric bucket, plus each scalar bucket against the numeric pair
        trip = [(a, b, c) for a in (1, 2) for b in (1, 2) for c in (1, 2)]
        for x in (0, 3, 4, 5, 7):
            trip += [(x, 1, 2), (1, x, 2), (2, 1, x), (x, x, x)]
        trip += [(14, 14, 14), (10, 10, 10), (13, 14, 13)]
        ctrip = list(trip)
    else:
        unary = list(TAGS)
        pair_tags = list(TAGS)
        pairs = [(a, b) for a in pair_tags for b in pair_tags]
        trip = [(a, b, c) for a in scalars for b in scalars for c in scalars]
        cont = [8, 10, 11, 13, 14, 15, 19, 20]
        # container triples: all triples inside one bucket (these interact), plus numeric mixes
        for bucket in set(BUCKET.values()):
            inb = [t for t in cont if BUCKET[t] == bucket]
            trip += [(a, b, c) for a in inb for b in inb for c in inb]
        trip += [(17, 18, 17), (17, 17, 17), (18, 18, 18), (16, 17, 18)]
        trip = sorted(set(trip))
        ctrip = list(trip)
    gen = []
    uses_map = lambda ts: any(t in (16, 17, 18) for t in ts)

    def emit(fn, call, ts):
        attrs = "#[kani::unwind(6)]\n"
        if uses_map(ts):
            attrs += "#[kani::stub(std::hash::RandomState::new, vk_fixed_random_state)]\n"
        gen.append("vk_proof! {\n%sfn %s() { %s }\n}\n" % (attrs, fn, call))

    for a in unary:
        fn = "c10_unary_%d" % a
        emit(fn, "unary_laws(%d);" % a, (a,))
        p.add(MOD, H(fn, {"law": "reflexivity", "tags": [TAGS[a]]}, "unary"))
    for a, b in pairs:
        fn = "c10_pair_%d_%d" % (a, b)
        emit(fn, "pair_laws(%d, %d);" % (a, b), (a, b))
        p.add(MOD, H(fn, {"law": "antisymmetry+Eq+Hash+cypher_order", "tags": [TAGS[a], TAGS[b]]}, "pair"))
    for a, b, c in trip:
        fn = "c10_tro_%d_%d_%d" % (a, b, c)
        emit(fn, "triple_ord(%d, %d, %d);" % (a, b, c), (a, b, c))
        p.add(MOD, H(fn, {"law": "Ord transitivity", "tags": [TAGS[a], TAGS[b], TAGS[c]]}, "triple_ord"))
    for a, b, c in ctrip:
        fn = "c10_trc_%d_%d_%d" % (a, b, c)
        emit(fn, "triple_cypher(%d, %d, %d);" % (a, b, c), (a, b, c))
        p.add(MOD, H(fn, {"law": "cypher_order transitivity", "tags": [TAGS[a], TAGS[b], TAGS[c]]}, "triple_cypher"))
    p.gen["c10_gen.rs"] = "".join(gen)
    p.functions = ["<PropertyValue as Ord>::cmp", "<PropertyValue as PartialOrd>::partial_cmp",
                   "<PropertyValue as PartialEq>::eq", "<PropertyValue as Hash>::hash",
                   "graph::property::cypher_order"]
    p.assumptions = [
        "variant tags and container lengths are concrete per harness (the shape); every payload is symbolic: "
        "full 64-bit i64/f64 (every NaN payload, both zeros, infinities, |i|>2^53), bool, Duration 3xi64+i32, "
        "f32 vector elements, ASCII string bytes",
        "'hash equally' is judged on the byte stream fed to a recording Hasher folded with FNV-1a",
        "Map harnesses stub std::hash::RandomState::new to fixed keys (no C10 clause depends on the seed)",
        "drop glue skipped (mem::forget)",
    ]
    p.bound = ("tags %s; strings <=2 ASCII bytes, vectors <=2, arrays <=2 scalar elements (+1 nested), maps <=1 key; "
               "unwind 6 with unwinding assertions" % sorted(set(TAGS[t] for t in pair_tags)))
    p.not_covered = "containers nested deeper than 2, longer strings/arrays/maps, non-ASCII strings"
    p.per_harness_timeout = 240
    return p
