"""C10 — property values are ordered by lawful total orders."""
from ..driver import Plan, H

TAGS = {0: "Boolean", 1: "Integer", 2: "Float", 3: "DateTime", 4: "Duration", 5: "Null",
        6: "String0", 7: "String1", 8: "String2", 9: "Vector0", 10: "Vector1", 11: "Vector2",
        12: "Array0", 13: "Array[Int]", 14: "Array[Float]", 15: "Array[Int,Float]",
        16: "Map{}", 17: "Map{k:Int}", 18: "Map{k:Float}", 19: "Array[Null]", 20: "Array[Array[Int]]"}
BUCKET = {0: 0, 1: 1, 2: 1, 3: 3, 4: 7, 5: 8, 6: 2, 7: 2, 8: 2, 9: 6, 10: 6, 11: 6,
          12: 4, 13: 4, 14: 4, 15: 4, 16: 5, 17: 5, 18: 5, 19: 4, 20: 4}
MOD = "graph::property::verif_kani_c10"
HASHSTUB = "#[kani::stub(std::hash::RandomState::new, super::vk_fixed_random_state)]\n"


def plan(tier):
    p = Plan("C10")
    p.injections = [("src/graph/property.rs", "c10.rs", "verif_kani_c10", MOD)]
    scalars = [0, 1, 2, 3, 4, 5, 7]
    if tier == "quick":
        unary = scalars + [6, 8, 10, 11, 13, 14]
        pair_tags = scalars + [10, 14]
        pairs = [(a, b) for a in pair_tags for b in pair_tags] + [(11, 11), (10, 11), (11, 10)]
        # triples: everything inside the numeric bucket, plus each scalar bucket against the numeric pair
        trip = [(a, b, c) for a in (1, 2) for b in (1, 2) for c in (1, 2)]
        for x in (0, 3, 4, 5, 7):
            trip += [(x, 1, 2), (1, x, 2), (2, 1, x), (x, x, x)]
        trip += [(14, 14, 14), (10, 10, 10), (13, 14, 13), (11, 11, 11), (10, 11, 11)]
        ctrip = list(trip) + [(10, 10, 14), (10, 14, 10), (14, 10, 10), (10, 14, 14)]  # Vector/Array share a cypher rank
    else:
        unary = list(TAGS)
        pair_tags = list(TAGS)
        pairs = [(a, b) for a in pair_tags for b in pair_tags]
        trip = [(a, b, c) for a in scalars for b in scalars for c in scalars]
        cont = [8, 10, 11, 13, 14, 15, 19, 20]
        # container triples: all triples inside one bucket (these interact), plus numeric mixes
        for bucket in set(BUCKET.values()):
            inb = [t for t in cont if BUCKET[t] == bucket]
            trip += [(a, b, c) for a in inb for b in inb for c in inb]
        trip += [(17, 18, 17), (17, 17, 17), (18, 18, 18), (16, 17, 18)]
        trip = sorted(set(trip))
        ctrip = list(trip)
    gen = []
    uses_map = lambda ts: any(t in (16, 17, 18) for t in ts)
    FLOATY = (2, 10, 11, 14, 15, 18)

    def emit(fn, calls, ts):
        attrs = "#[kani::unwind(42)]\n"
        if uses_map(ts):
            attrs += "#[kani::stub(std::hash::RandomState::new, vk_fixed_random_state)]\n"
        gen.append("vk_proof! {\n%sfn %s() { %s }\n}\n" % (attrs, fn, " ".join(calls)))

    def family(prefix, fam, law, items, call, group):
        """items: list of tag tuples; `group` shapes share one harness (the per-harness fixed cost of
        goto-instrument on this crate is ~8 s, far more than the solver needs per shape)."""
        # keep map shapes apart (they need the RandomState stub and are slower)
        heavy_tag = lambda x: x in (8, 11, 15, 20)  # two-element containers: loops over elements
        plain = [t for t in items if not uses_map(t) and not any(heavy_tag(x) for x in t)]
        heavy = [t for t in items if not uses_map(t) and any(heavy_tag(x) for x in t)]
        maps = [t for t in items if uses_map(t)]
        n = 0
        for part, g in ((plain, group), (heavy, 1 if len(items[0]) > 1 else 2), (maps, 2)):
            for i in range(0, len(part), g):
                chunk = part[i:i + g]
                fn = "%s_%d" % (prefix, n)
                n += 1
                emit(fn, [call(t) for t in chunk], [x for t in chunk for x in t])
                p.add(MOD, H(fn, {"law": law, "tag_tuples": [[TAGS[x] for x in t] for t in chunk]}, fam))

    family("c10_unary", "unary", "reflexivity of cmp / == / cypher_order", [(a,) for a in unary],
           lambda t: "unary_laws(%d, false);" % t, 8)
    family("c10_nan_unary", "nan_region", "Eq reflexive where some float payload is NaN",
           [(a,) for a in unary if a in FLOATY], lambda t: "unary_laws(%d, true);" % t, 8)
    # same-tag pairs are where Ord/Eq/Hash can actually disagree: one harness each, so that a heavy comparison
    # (e.g. wide multiplications) gets the whole per-harness budget instead of sharing a formula with five others
    family("c10_pairsame", "pair", "antisymmetry, Ord<->Eq agreement, Eq=>same hash stream, cypher_order antisymmetry",
           [t for t in pairs if t[0] == t[1]], lambda t: "pair_laws(%d, %d, false);" % t, 1)
    family("c10_pair", "pair", "antisymmetry, Ord<->Eq agreement, Eq=>same hash stream, cypher_order antisymmetry",
           [t for t in pairs if t[0] != t[1]], lambda t: "pair_laws(%d, %d, false);" % t, 6)
    family("c10_nan_pair", "nan_region", "Ord agrees with Eq where some float payload is NaN",
           [(a, b) for a, b in pairs if a in FLOATY and b in FLOATY and BUCKET[a] == BUCKET[b]],
           lambda t: "pair_laws(%d, %d, true);" % t, 6)
    family("c10_tro", "triple_ord", "Ord transitivity (<= and <)", trip,
           lambda t: "triple_ord(%d, %d, %d);" % t, 5)
    family("c10_trc", "triple_cypher", "cypher_order transitivity (<= and <)", ctrip,
           lambda t: "triple_cypher(%d, %d, %d);" % t, 5)
    p.gen["c10_gen.rs"] = "".join(gen)
    p.functions = ["<PropertyValue as Ord>::cmp", "<PropertyValue as PartialOrd>::partial_cmp",
                   "<PropertyValue as PartialEq>::eq", "<PropertyValue as Hash>::hash",
                   "graph::property::cypher_order"]
    p.assumptions = [
        "variant tags and container lengths are concrete per harness (the shape); every payload is symbolic: "
        "full 64-bit i64/f64 (every NaN payload, both zeros, infinities, |i|>2^53), bool, Duration 3xi64+i32, "
        "f32 vector elements, ASCII string bytes",
        "'hash equally' is judged on the byte stream fed to a recording Hasher folded with FNV-1a",
        "Map harnesses stub std::hash::RandomState::new to fixed keys (no C10 clause depends on the seed)",
        "drop glue skipped (mem::forget)",
    ]
    p.bound = ("tags %s; strings <=2 ASCII bytes, vectors <=2, arrays <=2 scalar elements (+1 nested), maps <=1 key; "
               "unwind 42 with unwinding assertions" % sorted(set(TAGS[t] for t in pair_tags)))
    p.not_covered = "containers nested deeper than 2, longer strings/arrays/maps, non-ASCII strings"
    p.per_harness_timeout = 900 if tier == 'quick' else 1500
    p.total_timeout = 2700 if tier == 'quick' else 7000
    return p
