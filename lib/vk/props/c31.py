"""C31 — Raft log storage keeps one entry per index and never loses the tail."""
from ..driver import Plan, H
from .c33 import RAFT_SLICE

MOD = "raft::storage::verif_kani_c31"
ATTR = ("#[kani::unwind(%d)]\n#[kani::stub(core::fmt::write, vk_fmt_write)]\n"
        "#[kani::stub(std::fmt::format, vk_fmt_format)]\n")


def plan(tier):
    p = Plan("C31")
    p.mode = "slice"
    p.slice = RAFT_SLICE
    p.injections = [("src/raft/cluster.rs", "c33.rs", "verif_kani_c33", "raft::cluster::verif_kani_c33"),
                    ("src/raft/storage.rs", "c31.rs", "verif_kani_c31", MOD)]
    p.gen["c33_gen.rs"] = ""
    maxl = 2 if tier == "quick" else 3
    gen = []

    def emit(fn, unwind, calls, shape, fam):
        gen.append("vk_proof! {\n" + ATTR % unwind + "fn %s() { %s }\n}\n" % (fn, " ".join(calls)))
        p.add(MOD, H(fn, shape, fam))

    for l in range(0, maxl + 1):
        for snap in (0, 1):
            sb = "true" if snap else "false"
            ops = [("snapshot", "step_snapshot(%d, %s);" % (l, sb), 2)]
            if tier != "quick" or l <= 1:
                ops += [("delete_from", "step_delete_from(%d, %s);" % (l, sb), 2),
                        ("read", "step_read(%d, %s);" % (l, sb), 2)]
            ops.append(("append1", "step_append(%d, %s, 1, 0);" % (l, sb), 3))
            # two-entry batches: measured — beyond these shapes CBMC exhausts memory (each Vec::push of a
            # LogEntry costs ~40 s of byte-level realloc/memcpy modelling)
            if l == 0 and (tier != "quick" or snap == 0):
                ops.append(("append2", "step_append(%d, %s, 2, 0);" % (l, sb), 4))
            for op, call, uw in ops:
                emit("c31_%s_L%d_s%d" % (op, l, snap), l + uw, [call],
                     {"op": op, "log_len": l, "snapshot_present": bool(snap), "indices": "symbolic u64"}, op)
    p.gen["c31_gen.rs"] = "".join(gen)
    p.functions = ["RaftStorage::{append_entries,get_entry,get_entries,get_last_log_index_term,delete_entries_from,"
                   "create_snapshot,get_snapshot_metadata}"]
    p.assumptions = [
        "slice crate: src/raft/storage.rs of the current tree after the de-async normalisation (`async fn`->`fn`, `.await` "
        "removed; any other async construct => inconclusive); tokio::sync::RwLock = uncontended lock that always grants; "
        "tracing macros = no-ops",
        "pre-state = arbitrary log satisfying the invariant the property states: indices strictly increasing, at least 1, in no "
        "relation to the snapshot index (re-asserted as a post-condition of every step, so it is inductive, not assumed)",
        "appended batches have consecutive indices, the first at least 1; snapshot indices do not go backwards",
        "entry payloads are empty (the module never inspects them)",
        "core::fmt::write / std::fmt::format stubbed; drop glue skipped",
    ]
    p.bound = ("log length L <= %d (concrete per harness) with symbolic 64-bit indices and terms, snapshot present/absent with "
               "symbolic metadata; one step of create_snapshot / delete_entries_from / reads / append of 1 entry, all with symbolic "
               "64-bit arguments; append of 2 consecutive entries on the empty log" % maxl)
    p.not_covered = "logs longer than %d, batches longer than 2, concurrency between callers, persistence (the module has none)" % maxl
    p.per_harness_timeout = 900 if tier == 'quick' else 1500
    p.total_timeout = 2700 if tier == 'quick' else 7000
    return p
