"""Shared slice definition for the RESP properties (C20, C21, C22)."""


def resp_lib_rs(tree):
    return ("#![allow(warnings)]\npub mod protocol {\n"
            "    #[path = \"%s/src/protocol/resp.rs\"] pub mod resp;\n}\n" % tree)


RESP_SLICE = {
    "name": "vslice_resp",
    "deps": {"bytes": '"1.5"', "thiserror": '"1.0"'},
    "shims": [],
    "lib_rs": resp_lib_rs,
}
MOD = "protocol::resp::verif_kani_resp"
INJ = [("src/protocol/resp.rs", "c21.rs", "verif_kani_resp", MOD)]
ATTR = ("#[kani::unwind(%d)]\n#[kani::stub(core::fmt::write, vk_fmt_write)]\n"
        "#[kani::stub(std::fmt::format, vk_fmt_format)]\n")
STUBS = "#[kani::stub(super::RespValue::read_line, read_line_model)]\n"
