"""C33 — cluster health claims quorum only with a majority of distinct voters."""
import os
import re

from ..driver import Plan, H
from ..core import Inconclusive
from .. import slices

MOD = "raft::cluster::verif_kani_c33"


def rgs(n, k=3):
    """restricted growth strings of length n over at most k symbols: every pattern of repeated ids up to renaming"""
    out = []

    def rec(pref, mx):
        if len(pref) == n:
            out.append(tuple(pref))
            return
        for v in range(1, min(mx + 1, k) + 1):
            rec(pref + [v], max(mx, v))
    rec([], 0)
    return out


def raft_lib_rs(tree):
    mod = open(os.path.join(tree, "src/raft/mod.rs")).read()
    items = [
        slices.extract_item(mod, r"^pub type RaftNodeId\b", "type RaftNodeId"),
        slices.extract_item(mod, r"^pub enum RaftError\b", "enum RaftError"),
        slices.extract_item(mod, r"^pub type RaftResult\b", "type RaftResult"),
    ]
    return ("#![allow(warnings)]\npub mod raft {\n    use thiserror::Error;\n%s\n"
            "    #[path = \"%s/src/raft/storage.rs\"] pub mod storage;\n"
            "    #[path = \"%s/src/raft/cluster.rs\"] pub mod cluster;\n}\n" % ("\n".join(items), tree, tree))


RAFT_SLICE = {
    "name": "vslice_raft",
    "deps": {"serde": '{ version = "1.0", features = ["derive"] }', "thiserror": '"1.0"'},
    "shims": ["tokio", "tracing", "chrono", "vkcoll"],
    "redirect_collections": ["src/raft/cluster.rs"],
    "deasync": ["src/raft/cluster.rs", "src/raft/storage.rs"],
    "lib_rs": raft_lib_rs,
}


def threshold_expr(tree):
    src = open(os.path.join(tree, "src/raft/cluster.rs")).read()
    m = re.search(r"active_voters\s*>=\s*\(?\s*([^;&]*?voters[^;&]*?)\)?\s*&&\s*has_leader", src)
    if not m:
        m = re.search(r"active_voters\s*>\s*\(?\s*([^;&]*?voters[^;&]*?)\)?\s*&&\s*has_leader", src)
        if m:
            return "(%s) + 1" % m.group(1)
        return None
    return m.group(1)


def plan(tier):
    p = Plan("C33")
    p.mode = "slice"
    p.slice = RAFT_SLICE
    p.injections = [("src/raft/cluster.rs", "c33.rs", "verif_kani_c33", MOD),
                    ("src/raft/storage.rs", "c31.rs", "verif_kani_c31", "raft::storage::verif_kani_c31")]
    gen = []
    VIA = ["ClusterConfig::add_node", "ClusterManager::add_node", "ready-made nodes vec",
           "ClusterManager::add_node after pre-join activity marks"]
    def consistent(ids, vmask):
        seen = {}
        for i, x in enumerate(ids):
            f = vmask >> i & 1
            if seen.setdefault(x, f) != f:
                return False
        return True

    if tier == "quick":
        # (ids, voter bit per addition, via, removed id): chosen so that every clause has a shape that can break it
        shapes = [((1,), 0b1, 0, 0),
                  ((1, 1), 0b11, 0, 0), ((1, 1), 0b11, 1, 0), ((1, 1), 0b11, 2, 0),
                  ((1, 2), 0b11, 0, 0), ((1, 2), 0b01, 0, 0), ((1, 2), 0b11, 0, 1), ((1, 2), 0b11, 1, 0),
                  ((1, 1, 2), 0b111, 0, 0), ((1, 2, 3), 0b111, 0, 0), ((1, 2, 3), 0b011, 2, 0), ((1, 2, 2), 0b111, 2, 0), ((1, 2, 1), 0b111, 2, 0),
                  # voter/learner changes by re-adding an id: promotion and demotion
                  ((1, 2, 2), 0b101, 0, 0), ((1, 2, 2), 0b011, 0, 0), ((1, 1), 0b01, 1, 0), ((1, 2), 0b11, 3, 0)]
    else:
        shapes = []
        for n in range(1, 4):
            for ids in rgs(n):
                k = max(ids)
                for vmask in range(1, 2 ** n):
                    for via in (0, 1, 2, 3):
                        if via in (1, 3) and n == 1:
                            continue
                        if via == 2 and not consistent(ids, vmask):
                            continue
                        for rm in ((0,) if via else range(0, k + 1)):
                            shapes.append((ids, vmask, via, rm))
        shapes += [((1, 1, 2, 2), 0b1111, 0, 0), ((1, 2, 3, 1), 0b0111, 2, 0), ((1, 2, 1, 2), 0b1111, 1, 0),
                   ((1, 1, 1, 2), 0b1111, 2, 0), ((1, 2, 3, 2), 0b0111, 0, 0)]
    for k, (ids, vmask, via, rm) in enumerate(shapes):
        n = len(ids)
        fn = "c33_health_%s_v%d_via%d_rm%d" % ("".join(str(x) for x in ids), vmask, via, rm)
        gen.append("vk_proof! {\n#[kani::unwind(%d)]\n#[kani::stub(core::fmt::write, vk_fmt_write)]\n"
                   "#[kani::stub(std::fmt::format, vk_fmt_format)]\nfn %s() { health(&[%s], %d, %d, %d); }\n}\n"
                   % (n + 2, fn, ", ".join(str(x) for x in ids), vmask, via, rm))
        p.add(MOD, H(fn, {"ids": list(ids), "voter_flag_per_addition": [bool(vmask >> i & 1) for i in range(n)],
                          "built_via": VIA[via], "remove_node": rm or None}, "health"))

    def src_check(tree):
        thr = threshold_expr(tree)
        gp = p.gen
        if thr is None:
            gp["c33_gen.rs"] = "".join(gen)
            p.harnesses = [h for h in p.harnesses if h.family != "intersection"]
            p.assumptions.append("all-sizes intersection harness skipped this run: no `active_voters >= <expr> && has_leader` "
                                 "threshold expression recognised in health_status")
        else:
            gp["c33_gen.rs"] = "".join(gen) + (
                "fn vk_thr(voters: usize) -> usize { %s }\n"
                "vk_proof! {\nfn c33_intersection_all_sizes() { intersection(vk_thr); }\n}\n" % thr)
            p.assumptions.append("intersection harness uses the threshold expression lifted from the source: `%s`" % thr)
    p.add(MOD, H("c33_intersection_all_sizes", {"v,a,b": "all usize with a,b <= v"}, "intersection"))
    p.source_checks.append(src_check)
    p.gen["c33_gen.rs"] = "".join(gen)
    p.gen["c31_gen.rs"] = ""
    p.functions = ["ClusterConfig::{new,add_node,voters,validate}",
                   "ClusterManager::{new,add_node,remove_node,mark_active,mark_inactive,update_node_role,health_status}"]
    p.assumptions += [
        "slice crate: src/raft/cluster.rs of the current tree after the de-async normalisation (`async fn`->`fn`, `.await` "
        "removed: futures that cannot pend run to completion; any other async construct => inconclusive); "
        "tokio::sync::RwLock = uncontended lock that always grants, "
        "tracing macros = no-ops, chrono::Utc::now = non-decreasing counter (shims/)",
        "RaftNodeId/RaftError/RaftResult extracted textually from src/raft/mod.rs",
        "std::collections::{HashMap,HashSet} redirected (use line only) to shims/vkcoll: a finite map/set with unique keys, "
        "4 slots, iteration in slot order (hashbrown's SIMD probing does not get through CBMC)",
        "core::fmt::write / std::fmt::format stubbed (formatting is not the subject)",
        "a later addition of an id through add_node decides that member's class (voter/learner); configurations handed "
        "over ready-made carry one flag per id",
    ]
    p.bound = ("%d shapes (id sequence as restricted-growth string of length <= %d over <= 3 ids, voter flag per addition, "
               "construction path, removed id) x symbolic arguments in 0..=3 of 2 mark_active, 1 mark_inactive, "
               "1 update_node_role(Leader); unwind n+2 with unwinding assertions; intersection lemma: all 64-bit v,a,b"
               % (len(shapes), max(len(sh[0]) for sh in shapes)))
    p.not_covered = "more additions / more distinct ids than the listed shapes; openraft membership changes; lock contention"
    p.per_harness_timeout = 900 if tier == 'quick' else 1500
    p.total_timeout = 2700 if tier == 'quick' else 7000
    return p
