"""C21 — the RESP decoder is safe on arbitrary bytes."""
from ..driver import Plan, H
from .resp_common import RESP_SLICE, MOD, INJ, ATTR, STUBS

TYPES = {"plus": 43, "minus": 45, "colon": 58, "null": 95}


def plan(tier):
    p = Plan("C21")
    p.mode = "slice"
    p.slice = RESP_SLICE
    p.injections = INJ
    gen = []
    maxn = 4 if tier == "quick" else 6
    for n in range(1, maxn + 1):
        fn = "c21_readline_%d" % n
        gen.append("vk_proof! {\n" + ATTR % (n + 2) + "fn %s() { readline_spec::<%d>(); }\n}\n" % (fn, n))
        p.add(MOD, H(fn, {"bytes": n}, "readline"))
    for name, ty in TYPES.items():
        for h in range(0, 3):
            for t in (0, 1):
                fn = "c21_line_%s_h%d_t%d" % (name, h, t)
                gen.append("vk_proof! {\n" + ATTR % (h + t + 5) + STUBS + "fn %s() { line_frame::<%d, %d>(%d); }\n}\n" % (fn, h, t, ty))
                p.add(MOD, H(fn, {"frame": name, "header_bytes": h, "trailing_bytes": t}, "line"))
            fn = "c21_lineinc_%s_h%d" % (name, h)
            gen.append("vk_proof! {\n" + ATTR % (h + 4) + STUBS + "fn %s() { line_incomplete::<%d>(%d); }\n}\n" % (fn, h, ty))
            p.add(MOD, H(fn, {"frame": name, "header_bytes": h, "crlf": "absent"}, "line_incomplete"))
    # inline commands (first byte not a type character): the tokenizer over symbolic characters is heavy
    for h, t in ():  # (inline commands: the tokenizer over symbolic characters gives no verdict in 20 min; not scheduled)
        fn = "c21_line_inline_h%d_t%d" % (h, t)
        gen.append("vk_proof! {\n" + ATTR % (h + t + 6) + STUBS + "fn %s() { line_frame::<%d, %d>(0); }\n}\n" % (fn, h, t))
        p.add(MOD, H(fn, {"frame": "inline", "header_bytes": h, "trailing_bytes": t}, "line_inline"))
    for h in range(0, 3):
        for pl in range(0, 5 if tier == "quick" else 6):
            fn = "c21_bulk_h%d_p%d" % (h, pl)
            gen.append("vk_proof! {\n" + ATTR % (h + pl + 5) + STUBS + "fn %s() { bulk_frame::<%d, %d>(); }\n}\n" % (fn, h, pl))
            p.add(MOD, H(fn, {"frame": "bulk", "header_bytes": h, "bytes_after_header": pl}, "bulk"))
    for h in range(0, 3):
        fn = "c21_array_h%d_k0" % h
        gen.append("vk_proof! {\n" + ATTR % (h + 6) + STUBS + "fn %s() { array_frame::<%d, 0>(); }\n}\n" % (fn, h))
        p.add(MOD, H(fn, {"frame": "array header", "header_bytes": "%d arbitrary bytes" % h, "element_slots": 0}, "array_header"))
    for k in range(0, 3):
        for count in range(0, 2):  # (two or more `+x` elements: no verdict in 18 min — each element is a Vec::push)
            if count > k + 1:
                continue
            fn = "c21_array_elems_k%d_count%d" % (k, count)
            gen.append("vk_proof! {\n" + ATTR % (4 * k + 8) + STUBS + "fn %s() { array_elems::<%d>(%d); }\n}\n" % (fn, k, count))
            p.add(MOD, H(fn, {"frame": "array", "declared_count": count, "elements_received": k, "element": "+x CRLF, x symbolic"}, "array_elems"))
    for k, count in (((1, 1), (0, 1), (1, 0)) if tier == "quick" else ((1, 1), (0, 1), (1, 0), (2, 1), (2, 2), (1, 2))):
        for tr in (0, 1):
            fn = "c21_array_nulls_k%d_count%d_t%d" % (k, count, tr)
            gen.append("vk_proof! {\n" + ATTR % (3 * k + 8) + STUBS + "fn %s() { array_nulls::<%d>(%d, %s); }\n}\n"
                       % (fn, k, count, "true" if tr else "false"))
            p.add(MOD, H(fn, {"frame": "array", "declared_count": count, "elements_received": k, "element": "_ CRLF (3 bytes)",
                              "trailing": "%d symbolic byte of a following frame" % tr}, "array_elems"))
    for d in ((6, 12) if tier == "quick" else (6, 9, 12, 14)):
        for kind, call in (("array", "array_huge_count"), ("bulk", "bulk_huge_count")):
            fn = "c21_%s_count_%ddigits" % (kind, d)
            gen.append("vk_proof! {\n" + ATTR % (d + 5) + STUBS + "#[kani::stub(std::alloc::alloc, vk_alloc)]\n"
                       + "fn %s() { %s::<%d>(); }\n}\n" % (fn, call, d))
            p.add(MOD, H(fn, {"frame": "%s header only" % kind, "count": "%d symbolic decimal digits (first may be a sign)" % d}, "huge_count"))
    # boundary counts: i64::MAX = 9223372036854775807, u64::MAX = 18446744073709551615
    for kind, ty in ():  # (boundary counts around i64::MAX / u64::MAX: no verdict in 25 min, not scheduled)
        for bname, prefix in (("i64", "92233720368547758"), ("u64", "184467440737095516")):
            fn = "c21_%s_count_boundary_%s" % (kind, bname)
            gen.append("vk_proof! {\n" + ATTR % 30 + STUBS + "#[kani::stub(std::alloc::alloc, vk_alloc)]\n"
                       + "fn %s() { count_boundary::<2>(%d, b\"%s\"); }\n}\n" % (fn, ty, prefix))
            p.add(MOD, H(fn, {"frame": "%s header only" % kind, "count": "sign? + %s + 2 symbolic digits (around %s::MAX)" % (prefix, bname)},
                         "count_boundary"))
    gen.append("vk_proof! {\n" + ATTR % 8 + "fn c21_nesting_limit() { nesting_limit(); }\n}\n")
    p.add(MOD, H("c21_nesting_limit", {"nesting": "at the declared limit, one below it, and propagation to an inner array"}, "nesting"))
    p.gen["c21_gen.rs"] = "".join(gen)
    p.functions = ["RespValue::{decode,decode_frame,decode_simple_string,decode_error,decode_integer,decode_bulk_string,"
                   "decode_array,decode_null,decode_inline_command,parse_inline_tokens,read_line}"]
    p.assumptions = [
        "slice crate: current src/protocol/resp.rs with the real `bytes` and `thiserror` crates",
        "compositional: family `readline` checks the real read_line against its specification on every buffer of n bytes; "
        "all other families stub read_line (kani::stub) with that specification, the CRLF position being part of the shape "
        "(assumed as 'first CRLF of the remaining buffer is here / there is none'), every other byte symbolic over all 256 values",
        "allocation monitor (header-only `huge_count` family): std::alloc::alloc stubbed by a recorder of the largest single "
        "request (forwarding to alloc_zeroed); the native replay measures the same number with a counting global allocator. "
        "The bound asserted is 64 + 40 x bytes received (a RespValue is 32 bytes, an element needs 3 bytes on the wire). In the "
        "other families the recorder is not installed (with it Kani 0.68 reports spurious layout mismatches on BytesMut's "
        "release path); there, returned vectors are bounded through capacity()",
        "core::fmt::write / std::fmt::format stubbed (error messages are not the subject); drop glue skipped",
        "stack depth itself is not modelled by CBMC: unbounded recursion is covered through the declared nesting limit "
        "(one level beyond it must be refused, and the limit must be <= 128)",
    ]
    p.bound = ("read_line: every buffer of <= %d bytes; one-line frames (+ - : _ inline): <= 2 symbolic content bytes, 0|1 trailing "
               "byte, with and without CRLF; bulk: <= 2 header bytes (any bytes: signs, digits, garbage) + <= %d arbitrary bytes "
               "after the header; arrays: <= 2 header bytes x <= %d element slots of symbolic type; array and bulk headers of 6..%d "
               "decimal digits (optionally signed) with nothing after them; nesting limit + 1" % (maxn, 4 if tier == "quick" else 5,
                                                                              2 if tier == "quick" else 3, 12 if tier == "quick" else 14))
    p.not_covered = ("declared counts of 15 or more digits (19 symbolic digits: no verdict in 25 min — the i64/usize overflow region of the "
                     "length parse is therefore NOT covered); longer frames; inline commands (the tokenizer over symbolic characters gives no verdict in 20 min); "
                     "arrays whose elements are not simple strings, nested arrays with symbolic content; real stack exhaustion")
    p.per_harness_timeout = 900 if tier == 'quick' else 1500
    p.total_timeout = 2700 if tier == 'quick' else 7000
    return p
