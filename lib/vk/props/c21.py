"""C21 — the RESP decoder is safe on arbitrary bytes."""
from ..driver import Plan, H
from .resp_common import RESP_SLICE, MOD, INJ, ATTR, STUBS

TYPES = {"plus": 43, "minus": 45, "colon": 58, "null": 95, "inline": 0}


def plan(tier):
    p = Plan("C21")
    p.mode = "slice"
    p.slice = RESP_SLICE
    p.injections = INJ
    gen = []
    maxn = 4 if tier == "quick" else 6
    for n in range(1, maxn + 1):
        fn = "c21_readline_%d" % n
        gen.append("vk_proof! {\n" + ATTR % (n + 2) + "fn %s() { readline_spec::<%d>(); }\n}\n" % (fn, n))
        p.add(MOD, H(fn, {"bytes": n}, "readline"))
    for name, ty in TYPES.items():
        for h in range(0, 3):
            for t in (0, 1):
                fn = "c21_line_%s_h%d_t%d" % (name, h, t)
                gen.append("vk_proof! {\n" + ATTR % (h + t + 5) + STUBS + "fn %s() { line_frame::<%d, %d>(%d); }\n}\n" % (fn, h, t, ty))
                p.add(MOD, H(fn, {"frame": name, "header_bytes": h, "trailing_bytes": t}, "line"))
            fn = "c21_lineinc_%s_h%d" % (name, h)
            gen.append("vk_proof! {\n" + ATTR % (h + 4) + STUBS + "fn %s() { line_incomplete::<%d>(%d); }\n}\n" % (fn, h, ty))
            p.add(MOD, H(fn, {"frame": name, "header_bytes": h, "crlf": "absent"}, "line_incomplete"))
    for h in range(0, 3):
        for pl in range(0, 5 if tier == "quick" else 6):
            fn = "c21_bulk_h%d_p%d" % (h, pl)
            gen.append("vk_proof! {\n" + ATTR % (h + pl + 5) + STUBS + "fn %s() { bulk_frame::<%d, %d>(); }\n}\n" % (fn, h, pl))
            p.add(MOD, H(fn, {"frame": "bulk", "header_bytes": h, "bytes_after_header": pl}, "bulk"))
    for h in range(0, 3):
        for k in range(0, 3 if tier == "quick" else 4):
            fn = "c21_array_h%d_k%d" % (h, k)
            gen.append("vk_proof! {\n" + ATTR % (h + 3 * k + 6) + STUBS + "fn %s() { array_frame::<%d, %d>(); }\n}\n" % (fn, h, k))
            p.add(MOD, H(fn, {"frame": "array", "header_bytes": h, "element_slots": k}, "array"))
    for d in ((6, 12) if tier == "quick" else (6, 12, 19, 20)):
        fn = "c21_array_count_%ddigits" % d
        gen.append("vk_proof! {\n" + ATTR % (d + 5) + STUBS + "fn %s() { array_huge_count::<%d>(); }\n}\n" % (fn, d))
        p.add(MOD, H(fn, {"frame": "array header only", "count_digits": d}, "array_count"))
    gen.append("vk_proof! {\n" + ATTR % 140 + "fn c21_nesting_over_limit() { nesting(RespValue::MAX_DEPTH + 1, false); }\n}\n")
    p.add(MOD, H("c21_nesting_over_limit", {"nesting": "declared limit + 1, concrete bytes"}, "nesting"))
    gen.append("vk_proof! {\n" + ATTR % 140 + "fn c21_nesting_small() { nesting(3, true); }\n}\n")
    p.add(MOD, H("c21_nesting_small", {"nesting": 3}, "nesting"))
    p.gen["c21_gen.rs"] = "".join(gen)
    p.functions = ["RespValue::{decode,decode_frame,decode_simple_string,decode_error,decode_integer,decode_bulk_string,"
                   "decode_array,decode_null,decode_inline_command,parse_inline_tokens,read_line}"]
    p.assumptions = [
        "slice crate: current src/protocol/resp.rs with the real `bytes` and `thiserror` crates",
        "compositional: family `readline` checks the real read_line against its specification on every buffer of n bytes; "
        "all other families stub read_line (kani::stub) with that specification, the CRLF position being part of the shape "
        "(assumed as 'first CRLF of the remaining buffer is here / there is none'), every other byte symbolic over all 256 values",
        "allocation monitor: std::alloc::dealloc stubbed by a recorder of the largest block released (temporaries of the decoder "
        "are released before it returns; returned vectors are inspected through capacity()); "
        "the bound asserted is 64 + 40 x bytes received (a RespValue is 32 bytes and an element needs 3 bytes on the wire)",
        "core::fmt::write / std::fmt::format stubbed (error messages are not the subject); drop glue skipped",
        "stack depth itself is not modelled by CBMC: unbounded recursion is covered through the declared nesting limit "
        "(one level beyond it must be refused, and the limit must be <= 128)",
    ]
    p.bound = ("read_line: every buffer of <= %d bytes; one-line frames (+ - : _ inline): <= 2 symbolic content bytes, 0|1 trailing "
               "byte, with and without CRLF; bulk: <= 2 header bytes (any bytes: signs, digits, garbage) + <= %d arbitrary bytes "
               "after the header; arrays: <= 2 header bytes x <= %d element slots of symbolic type; array headers of 6..%d "
               "decimal digits with nothing after them; nesting limit + 1" % (maxn, 4 if tier == "quick" else 5,
                                                                              2 if tier == "quick" else 3, 12 if tier == "quick" else 20))
    p.not_covered = "longer frames; nested arrays with symbolic content; real stack exhaustion (no stack model in CBMC)"
    p.per_harness_timeout = 400 if tier == "quick" else 1500
    p.total_timeout = 1600 if tier == "quick" else 7000
    return p
