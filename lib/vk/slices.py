"""vk.slices — slice crates: verbatim current source files of /repo compiled against environment shims.

A slice crate's modules are `#[path]` includes of the files in the scratch tree (which already carry the
injected harness module); only `use` targets that name the environment (tokio, tracing, chrono, std::fs)
are redirected, and the handful of sibling definitions a file imports are extracted textually from the
current source.  If an extraction or redirection no longer applies the run is Inconclusive, never a pass.
"""
import os
import re
import shutil

from . import core
from .core import Inconclusive

SHIMS = os.path.join(core.VERIF, "shims")


def extract_item(text, header_re, what):
    """Return the source text of the item whose header matches header_re (brace-balanced or up to ';')."""
    m = re.search(header_re, text, re.M)
    if not m:
        raise Inconclusive("slice extraction: %s not found" % what)
    i = m.start()
    j = m.end()
    # include preceding attribute lines
    lines_before = text[:i].split("\n")
    k = len(lines_before) - 1
    start = i
    while k > 0 and lines_before[k - 1].strip().startswith("#["):
        start -= len(lines_before[k - 1]) + 1
        k -= 1
    # find end
    depth = 0
    p = j
    while p < len(text):
        c = text[p]
        if c == "{":
            depth += 1
        elif c == "}":
            depth -= 1
            if depth == 0:
                return text[start:p + 1]
        elif c == ";" and depth == 0:
            return text[start:p + 1]
        p += 1
    raise Inconclusive("slice extraction: %s unterminated" % what)


def redirect_collections(tree, relpath):
    """Redirect std::collections::{HashMap, HashSet} in the scratch copy of one file to the vkcoll model.
    Only `use` lines and fully qualified paths are touched; function bodies stay verbatim."""
    p = os.path.join(tree, relpath)
    src = open(p).read()
    n = [0]

    def grouped(m):
        names = [x.strip() for x in m.group(1).split(",") if x.strip()]
        mine = [x for x in names if x in ("HashMap", "HashSet")]
        rest = [x for x in names if x not in ("HashMap", "HashSet")]
        if not mine:
            return m.group(0)
        n[0] += 1
        out = "use vkcoll::{%s};" % ", ".join(mine)
        if rest:
            out += " use std::collections::{%s};" % ", ".join(rest)
        return out
    src = re.sub(r"use std::collections::\{([^}]*)\};", grouped, src)

    def single(m):
        n[0] += 1
        return "use vkcoll::%s;" % m.group(1)
    src = re.sub(r"use std::collections::(HashMap|HashSet);", single, src)
    src, k = re.subn(r"std::collections::(HashMap|HashSet)\b", r"vkcoll::\1", src)
    n[0] += k
    open(p, "w").write(src)
    return n[0]


ASYNC_FORBIDDEN = re.compile(r"\basync\s+move\b|\basync\s*\{|tokio::spawn|select!|\.await\s*\?\s*\.await|JoinHandle|mpsc::")


def deasync(tree, relpath):
    """Source normalisation for modules whose futures can never pend under the uncontended-lock shim:
    `async fn` -> `fn`, `.await` removed.  Sequential semantics are unchanged (an async fn that never
    pends runs to completion at its first poll); measured 8x cheaper in CBMC than polling the coroutine.
    Anything that is not a plain async fn / .await makes the run Inconclusive."""
    p = os.path.join(tree, relpath)
    src = open(p).read()
    body = src.split("#[cfg(test)]")[0]
    if ASYNC_FORBIDDEN.search(body):
        raise Inconclusive("%s uses async constructs beyond `async fn`/.await; de-async rule does not apply" % relpath)
    src, a = re.subn(r"\basync\s+fn\b", "fn", src)
    src, b = re.subn(r"\.await\b", "", src)
    open(p, "w").write(src)
    return a, b


def build_slice(slot, tree, spec, native=False):
    for rel in spec.get("deasync", []):
        deasync(tree, rel)
    for rel in spec.get("redirect_collections", []):
        redirect_collections(tree, rel)
    d = os.path.join(slot.dir, "slices", spec["name"] + ("-n" if native else ""))
    shutil.rmtree(d, ignore_errors=True)
    os.makedirs(os.path.join(d, "src"))
    deps = []
    for name, val in spec.get("deps", {}).items():
        deps.append("%s = %s" % (name, val))
    for name in spec.get("shims", []):
        deps.append('%s = { path = "%s" }' % (name, os.path.join(SHIMS, name)))
    with open(os.path.join(d, "Cargo.toml"), "w") as f:
        f.write('[package]\nname = "%s"\nversion = "0.0.0"\nedition = "2021"\n\n[workspace]\n\n[dependencies]\n%s\n'
                '\n[lints.rust]\nunexpected_cfgs = "allow"\nunused = "allow"\n' % (spec["name"], "\n".join(deps)))
    lock = os.path.join(tree, "Cargo.lock")
    if os.path.exists(lock):
        shutil.copy(lock, os.path.join(d, "Cargo.lock"))
    with open(os.path.join(d, "src", "lib.rs"), "w") as f:
        f.write(spec["lib_rs"](tree))
    return d
