"""vk.driver — runs one property check end to end and writes its evidence."""
import hashlib
import importlib
import json
import os
import random
import re
import shutil
import sys
import time

from . import core
from .core import log, Inconclusive

EVIDENCE_DIR = os.path.join(core.VERIF, "evidence")
REPLAY_DIR = os.path.join(core.VERIF, "replays")
KNOWN = os.path.join(core.VERIF, "known_findings.jsonl")


class H:
    """One harness = one solver query family member."""

    def __init__(self, fn, shape, family, expect="pass", note=None):
        self.fn = fn  # function name inside the harness module
        self.shape = shape  # JSON-able description of the concrete shape
        self.family = family
        self.expect = expect
        self.note = note
        self.full = None  # fully qualified Kani name, filled by Plan


class Plan:
    def __init__(self, pid):
        self.pid = pid
        self.mode = "full"  # full | slice | ext
        self.package = "samyama"
        self.crate_name = "samyama"
        self.injections = []  # (relpath, harness_file, modname, rust_mod_path)
        self.gen = {}  # filename -> text
        self.harnesses = []
        self.kani_extra = []
        self.functions = []
        self.assumptions = []
        self.bound = ""
        self.not_covered = ""
        self.jobs = 12
        self.per_harness_timeout = 900
        self.total_timeout = 2700
        self.mem_gb = 40  # address-space cap per process (kani-driver itself maps >20 GB with 12 threads and large goto binaries)
        self.slice = None  # for mode slice: dict(name, builder)
        self.rule = ""
        self.native_release = False
        self.public_replay = None  # optional callable(ctx, hres, vals) -> (verdict, msg)
        self.source_checks = []  # callables(tree) raising Inconclusive

    def add(self, modpath, h):
        h.full = modpath + "::" + h.fn
        h.modpath = modpath
        self.harnesses.append(h)


def load_known():
    out = []
    if os.path.exists(KNOWN):
        for line in open(KNOWN):
            line = line.strip()
            if line and not line.startswith("#"):
                out.append(json.loads(line))
    return out


def match_known(known, pid, h, failed_checks, vals):
    """A listed finding matches by *role*: property, harness-family regex, failed-check regex.
    Entries with status "fixed" never match (they suppress nothing)."""
    hits = []
    for k in known:
        if k.get("status") != "known" or k.get("property") != pid:
            continue
        if not re.search(k.get("harness_re", ".*"), h.fn):
            continue
        descs = [c for c in failed_checks if re.search(k.get("check_re", ".*"), c)]
        if not descs:
            continue
        hits.append((k, descs))
    return hits


def write_evidence(pid, tier, seed, coverage, assumptions, wall, violations, extra=None):
    os.makedirs(EVIDENCE_DIR, exist_ok=True)
    ev = {"property_id": pid, "tier": tier, "seed": seed, "level": "model_checking",
          "coverage": coverage, "assumptions": assumptions, "wall_s": round(wall, 1),
          "violations": violations}
    if extra:
        ev.update(extra)
    tmp = os.path.join(EVIDENCE_DIR, pid + ".json.tmp")
    with open(tmp, "w") as f:
        json.dump(ev, f, indent=1)
    os.replace(tmp, os.path.join(EVIDENCE_DIR, pid + ".json"))


def prepare_tree(slot, plan, native=False, entries=None):
    """Sync /repo's working tree into the slot and inject the harness modules.
    entries (native only): {modname: [(idx, fn, vals_file), ...]}"""
    tree = slot.sync(native=native)
    for chk in plan.source_checks:
        chk(tree)
    os.makedirs(slot.gen, exist_ok=True)
    for fn, text in plan.gen.items():
        gp = os.path.join(slot.gen, fn)
        if not (os.path.exists(gp) and open(gp).read() == text):
            with open(gp, "w") as f:
                f.write(text)
    for (rel, hf, mod, _mp) in plan.injections:
        core.inject(tree, rel, hf, mod, native=native, entries=(entries or {}).get(mod))
    cwd, pkg, crate_dir, crate_name = tree, plan.package, tree, plan.crate_name
    if plan.mode == "slice":
        from . import slices
        cwd = slices.build_slice(slot, tree, plan.slice, native=native)
        pkg, crate_dir, crate_name = None, cwd, plan.slice["name"]
    elif plan.mode == "ext":
        cwd = os.path.join(tree, plan.slice["subdir"])
        pkg, crate_dir, crate_name = plan.package, cwd, plan.crate_name
    return cwd, pkg, crate_dir, crate_name


def do_replays(slot, plan, items, release=False):
    """Native replay of [(h, vals)] against the real code: the same harness bodies, compiled without
    cfg(kani), with kani::any() answered from the solver's concrete values.  One build, N runs.
    Returns [(verdict, msg)] aligned with items."""
    rdir = os.path.join(slot.dir, "replay")
    shutil.rmtree(rdir, ignore_errors=True)
    os.makedirs(rdir)
    entries = {}
    keys = []
    for i, (h, vals) in enumerate(items):
        vf = os.path.join(rdir, "vals%d.rs" % i)
        core.write_vals_file(vf, vals)
        mod = h.modpath.split("::")[-1]
        entries.setdefault(mod, []).append((i, h.fn, vf))
        keys.append((mod, i))
    os.environ["VK_GEN_DIR"] = slot.gen
    cwd, pkg, crate_dir, crate_name = prepare_tree(slot, plan, native=True, entries=entries)
    mods = [m for (_r, _h, m, _p) in plan.injections]
    binp, err = core.native_build(crate_dir, crate_name, rdir, mods, release=release)
    if binp is None:
        return [("ERROR", "native build failed: " + err[-1500:])] * len(items)
    return [core.native_run(binp, mod, i) for (mod, i) in keys]


def save_replay(pid, h, vals, failed, verdicts, plan):
    os.makedirs(REPLAY_DIR, exist_ok=True)
    blob = {"property": pid, "harness": h.full, "fn": h.fn, "family": h.family, "shape": h.shape,
            "failed_checks": failed, "concrete_vals": vals, "native": verdicts,
            "how": "bin/vcheck %s --replay <this file> re-runs the harness natively on /repo's current tree "
                   "with these values (kani::any() results in call order, little-endian bytes)" % pid}
    key = hashlib.sha1(json.dumps([h.fn, failed, vals], sort_keys=True).encode()).hexdigest()[:10]
    p = os.path.join(REPLAY_DIR, "%s-%s.json" % (pid, key))
    with open(p, "w") as f:
        json.dump(blob, f, indent=1)
    return p


def run_check(pid, tier, seed, keep=False, only=None):
    t0 = time.time()
    spec = importlib.import_module("vk.props." + pid.lower())
    slot = core.Slot()
    violations = 0
    known_lines = []
    inconclusive = []
    results = {}
    plan = None
    try:
        plan = spec.plan(tier)
        scale = float(os.environ.get("VK_TIMEOUT_SCALE", "1"))  # for loaded machines; verdicts are unaffected
        plan.per_harness_timeout = int(plan.per_harness_timeout * scale)
        plan.total_timeout = int(plan.total_timeout * scale)
        rnd = random.Random(seed)
        rnd.shuffle(plan.harnesses)  # VERIF_SEED only permutes the order of queries
        if only:
            plan.harnesses = [h for h in plan.harnesses if re.search(only, h.fn)]
        cwd, pkg, crate_dir, crate_name = prepare_tree(slot, plan)
        names = [h.full for h in plan.harnesses]
        log("%s tier=%s: %d harnesses, mode=%s" % (pid, tier, len(names), plan.mode))
        res, meta = core.run_kani(cwd, names, slot.gen, slot.out, package=pkg, jobs=plan.jobs,
                                  extra=plan.kani_extra, timeout_s=plan.total_timeout,
                                  per_harness_timeout=plan.per_harness_timeout, mem_gb=plan.mem_gb)
        if meta["build_failed"]:
            raise Inconclusive("kani build failed: " + meta["text_tail"][-1500:])
        known = load_known()
        failing = []
        not_replayed = []
        solver_s = 0.0
        checks_total = 0
        nontrivial = 0
        for h in plan.harnesses:
            r = res[h.full]
            results[h.fn] = r
            solver_s += r.time_s
            checks_total += r.checks_total
            if r.status is None:
                inconclusive.append("%s: %s" % (h.fn, r.error or "no verdict"))
                continue
            if r.status == "SUCCESSFUL":
                if r.cover_total and r.cover_sat == 0:
                    inconclusive.append("%s: vacuous (no cover satisfied)" % h.fn)
                else:
                    nontrivial += 1
                continue
            # FAILED
            if r.unwind_failed and all("unwinding assertion" in c for c in r.failed_checks):
                inconclusive.append("%s: unwinding bound too small" % h.fn)
                continue
            nontrivial += 1
            hits = match_known(known, pid, h, r.failed_checks, None)
            covered = set()
            for k, descs in hits:
                covered.update(descs)
            new = [c for c in r.failed_checks if c not in covered and "unwinding assertion" not in c]
            for k, descs in hits:
                line = "KNOWN-FINDING: property=%s %s" % (pid, k["what"])
                if line not in known_lines:
                    known_lines.append(line)
            if new:
                failing.append((h, new))
        # ---- counterexamples: extract (one batched solver run), replay natively (one build), report ----
        # at most MAX_REPLAY counterexamples are replayed per run, one per distinct (family, failed check) first
        MAX_REPLAY = int(os.environ.get("VK_MAX_REPLAY", "4"))
        seen, chosen, rest = set(), [], []
        for h, new in failing:
            key = (h.family, tuple(sorted(new)))
            (chosen if key not in seen else rest).append((h, new))
            seen.add(key)
        chosen = (chosen + rest)[:MAX_REPLAY]
        not_replayed = [h.fn for h, _ in failing if h.fn not in {c[0].fn for c in chosen}]
        if chosen:
            log("%d harness(es) FAILED; extracting counterexamples for %s" % (len(failing), [h.fn for h, _ in chosen]))
            vmap, plog = core.concrete_values(cwd, [h.full for h, _ in chosen], slot.gen, slot.out,
                                              package=pkg, extra=plan.kani_extra)
            items = []
            for h, new in chosen:
                if vmap.get(h.full) is None:
                    inconclusive.append("%s: failed (%s) but no concrete counterexample could be extracted" % (h.fn, new))
                else:
                    items.append((h, vmap[h.full], new))
            if items:
                dev = do_replays(slot, plan, [(h, v) for h, v, _ in items], release=False)
                rel = None
                if plan.native_release or any(v[0] == "PASSED" for v in dev):
                    rel = do_replays(slot, plan, [(h, v) for h, v, _ in items], release=True)
                for i, (h, vals, new) in enumerate(items):
                    verdicts = {"dev": list(dev[i])}
                    if rel:
                        verdicts["release"] = list(rel[i])
                    reproduced = any(x[0] == "REPRODUCED" for x in verdicts.values())
                    if reproduced and plan.public_replay:
                        pv, pmsg = plan.public_replay(slot, h, vals)
                        verdicts["public_api"] = [pv, pmsg]
                        if pv == "PASSED":
                            reproduced = False
                    if reproduced:
                        path = save_replay(pid, h, vals, new, verdicts, plan)
                        print("VIOLATION property=%s replay=%s" % (pid, path), flush=True)
                        log("   %s: %s" % (h.fn, json.dumps(verdicts)))
                        violations += 1
                    else:
                        inconclusive.append("%s: solver counterexample did not reproduce natively: %s" % (h.fn, verdicts))
        for l in known_lines:
            print(l, flush=True)
        wall = time.time() - t0
        samples = []
        for h in plan.harnesses[:6]:
            r = results[h.fn]
            samples.append({"harness": h.fn, "family": h.family, "shape": h.shape, **r.to_json()})
        fams = {}
        for h in plan.harnesses:
            f = fams.setdefault(h.family, {"harnesses": 0, "successful": 0, "failed": 0, "no_verdict": 0, "solver_s": 0.0})
            r = results[h.fn]
            f["harnesses"] += 1
            f["solver_s"] = round(f["solver_s"] + r.time_s, 2)
            f["successful" if r.status == "SUCCESSFUL" else "failed" if r.status == "FAILED" else "no_verdict"] += 1
        coverage = {
            "evaluations": len(plan.harnesses),
            "distinct_nontrivial": nontrivial,
            "rule": plan.rule or ("one evaluation = one SAT query family member (a Kani proof harness for one concrete "
                                  "shape, all contents symbolic), decided for every value of its symbolic variables; "
                                  "non-trivial = the solver returned a verdict AND the harness's reachability cover "
                                  "was satisfied (not vacuous); harness names are distinct by construction"),
            "samples": samples,
            "obligations": checks_total,
            "discharged": sum(r.checks_total - r.checks_failed for r in results.values() if r.status),
            "checker_cmd": "cargo kani (Kani 0.68.0 / CBMC 6.11.0 / CaDiCaL) " + " ".join(plan.kani_extra),
            "functions_encoded": plan.functions,
            "bound": plan.bound,
            "outside_bound": plan.not_covered,
            "families": fams,
            "solver_time_s": round(solver_s, 1),
            "kani_wall_s": round(meta["wall_s"], 1),
            "exhaustive": False,
            "inconclusive": inconclusive,
            "failed_not_replayed": not_replayed,
            "known_findings_reported": known_lines,
            "all_harnesses": [{"h": h.fn, "status": results[h.fn].status, "checks": results[h.fn].checks_total,
                               "s": round(results[h.fn].time_s, 1)} for h in plan.harnesses],
        }
        write_evidence(pid, tier, seed, coverage, plan.assumptions, wall, violations)
        if violations:
            return 1
        if inconclusive:
            for i in inconclusive:
                log("INCONCLUSIVE: " + i)
            return 2
        return 0
    except Inconclusive as e:
        log("INCONCLUSIVE: %s" % e)
        wall = time.time() - t0
        coverage = {"evaluations": 1, "distinct_nontrivial": 0, "rule": "run aborted before any solver verdict",
                    "samples": [{"aborted": str(e)[:2000]}], "inconclusive": [str(e)[:2000]]}
        write_evidence(pid, tier, seed, coverage, plan.assumptions if plan else [], wall, 0)
        return 2
    finally:
        slot.release(keep=keep)


def run_replay(pid, path, keep=False):
    """Re-run a saved counterexample natively against /repo's current tree."""
    blob = json.load(open(path))
    spec = importlib.import_module("vk.props." + pid.lower())
    slot = core.Slot()
    try:
        plan = spec.plan("thorough")
        hs = [h for h in plan.harnesses if h.fn == blob["fn"]]
        if not hs:
            plan = spec.plan("quick")
            hs = [h for h in plan.harnesses if h.fn == blob["fn"]]
        if not hs:
            log("harness %s no longer exists" % blob["fn"])
            return 2
        v, msg = do_replays(slot, plan, [(hs[0], blob["concrete_vals"])], release=False)[0]
        print("REPLAY %s: %s %s" % (blob["fn"], v, msg))
        if v == "REPRODUCED":
            print("VIOLATION property=%s replay=%s" % (pid, path))
            return 1
        return 0 if v == "PASSED" else 2
    finally:
        slot.release(keep=keep)
