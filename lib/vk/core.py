"""vk.core — the machinery shared by every property check.

Every check does, on every run: sync /repo's working tree to a scratch tree,
inject the harness modules into the scratch copies, (re)generate the shape
family, let Kani/CBMC decide each harness, replay every counterexample natively
against the real code, and write the evidence file.  Nothing is cached from an
earlier tree except compiled *dependencies*.
"""
import fcntl
import hashlib
import json
import os
import re
import shutil
import subprocess
import sys
import time

VERIF = os.path.dirname(os.path.dirname(os.path.dirname(os.path.abspath(__file__))))
REPO = os.environ.get("VK_REPO", "/repo")
SCRATCH = os.environ.get("VK_SCRATCH", "/var/tmp/samyama-verif")
CACHE = os.path.join(VERIF, ".cache")
KANI_TARGET = os.path.join(CACHE, "kani-target")
NATIVE_TARGET = os.path.join(CACHE, "native-target")
HARNESS_DIR = os.path.join(VERIF, "harness")
NSLOTS = 3

RSYNC_EXCLUDES = ["/target", "/.git", "/benchmarks", "/docs", "/case_studies", "/sdk", "/api",
                  "*.png", "*.gif", "/cli/target"]


def log(*a):
    print("[vk]", *a, file=sys.stderr, flush=True)


class Inconclusive(Exception):
    pass


# ---------------------------------------------------------------------------
# scratch slots
# ---------------------------------------------------------------------------
class Slot:
    """One scratch directory, held under flock for the duration of a run."""

    def __init__(self):
        os.makedirs(SCRATCH, exist_ok=True)
        self.fd = None
        self.idx = None
        for i in range(NSLOTS):
            fd = open(os.path.join(SCRATCH, "slot%d.lock" % i), "w")
            try:
                fcntl.flock(fd, fcntl.LOCK_EX | fcntl.LOCK_NB)
                self.fd, self.idx = fd, i
                break
            except OSError:
                fd.close()
        if self.fd is None:
            fd = open(os.path.join(SCRATCH, "slot0.lock"), "w")
            fcntl.flock(fd, fcntl.LOCK_EX)
            self.fd, self.idx = fd, 0
        self.dir = os.path.join(SCRATCH, "slot%d" % self.idx)
        self.tree = os.path.join(self.dir, "tree")
        self.ntree = os.path.join(self.dir, "ntree")
        self.gen = os.path.join(self.dir, "gen")
        self.out = os.path.join(self.dir, "out")
        for d in (self.gen, self.out):
            shutil.rmtree(d, ignore_errors=True)
            os.makedirs(d)

    def sync(self, native=False):
        """rsync the *working tree* of /repo (so edits made before the check are what is encoded)."""
        dst = self.ntree if native else self.tree
        os.makedirs(dst, exist_ok=True)
        cmd = ["rsync", "-a", "--delete", "--checksum"]
        for e in RSYNC_EXCLUDES:
            cmd += ["--exclude", e]
        cmd += [REPO + "/", dst + "/"]
        subprocess.run(cmd, check=True)
        return dst

    def release(self, keep=False):
        if not keep:
            for d in (self.gen, self.out, os.path.join(self.dir, "slices"), os.path.join(self.dir, "replay")):
                shutil.rmtree(d, ignore_errors=True)
        try:
            fcntl.flock(self.fd, fcntl.LOCK_UN)
            self.fd.close()
        except Exception:
            pass


def inject(tree, relpath, harness_file, modname, native=False, entries=None):
    """Append a child-module declaration to the scratch copy of a source file.

    Kani build:    #[cfg(kani)] #[path=...] mod <modname>;
    native replay: unconditional, plus a #[no_mangle] dispatcher vk_replay_entry_<modname>(idx) that loads
                   the solver's values for entry idx and calls that harness function.
    entries: list of (idx, fn_name, vals_file) for this module.
    """
    p = os.path.join(tree, relpath)
    if not os.path.exists(p):
        raise Inconclusive("anchor file %s no longer exists" % relpath)
    hp = harness_file if os.path.isabs(harness_file) else os.path.join(HARNESS_DIR, harness_file)
    with open(p, "a") as f:
        if native:
            f.write('\n#[path = "%s"] pub mod %s;\n' % (hp, modname))
            f.write('#[no_mangle] pub extern "Rust" fn vk_replay_entry_%s(idx: usize) { match idx {\n' % modname)
            for (idx, fn, vf) in entries or []:
                f.write('  %d => { %s::kani::load(include!("%s")); %s::%s() }\n' % (idx, modname, vf, modname, fn))
            f.write('  _ => panic!("VK-REPLAY-NOENTRY") } }\n')
        else:
            f.write('\n#[cfg(kani)] #[path = "%s"] mod %s;\n' % (hp, modname))


# ---------------------------------------------------------------------------
# running Kani
# ---------------------------------------------------------------------------
class HarnessResult:
    def __init__(self, name):
        self.name = name
        self.status = None  # SUCCESSFUL | FAILED | None (no verdict)
        self.failed_checks = []  # descriptions
        self.checks_total = 0
        self.checks_failed = 0
        self.cover_sat = 0
        self.cover_total = 0
        self.time_s = 0.0
        self.raw = ""
        self.error = None
        self.unwind_failed = False

    def to_json(self):
        return {"harness": self.name, "status": self.status, "checks": self.checks_total,
                "failed": self.failed_checks, "cover": "%d/%d" % (self.cover_sat, self.cover_total),
                "solver_s": round(self.time_s, 2)}


_HDR = re.compile(r"^(?:Thread (\d+): )?Checking harness (\S+?)\.\.\.\s*$")
_THR = re.compile(r"^Thread (\d+):\s*$")


def _parse_block(name, blk):
    r = HarnessResult(name)
    r.raw = blk
    m = re.search(r"\*\* (\d+) of (\d+) failed", blk)
    if m:
        r.checks_failed, r.checks_total = int(m.group(1)), int(m.group(2))
    m = re.search(r"\*\* (\d+) of (\d+) cover properties satisfied", blk)
    if m:
        r.cover_sat, r.cover_total = int(m.group(1)), int(m.group(2))
    m = re.search(r"VERIFICATION:- (SUCCESSFUL|FAILED)", blk)
    if m:
        r.status = m.group(1)
    m = re.search(r"Verification Time: ([0-9.]+)s", blk)
    if m:
        r.time_s = float(m.group(1))
    for fm in re.finditer(r"^Failed Checks: (.*)$", blk, re.M):
        r.failed_checks.append(fm.group(1).strip().strip('"'))
    r.unwind_failed = any("unwinding assertion" in c for c in r.failed_checks)
    if r.status == "FAILED" and not r.failed_checks:
        r.error = "FAILED without any failed check (solver crashed or ran out of memory in a later pass)"
        r.status = None
    if re.search(r"CBMC failed|Status: ERROR|out of memory|std::bad_alloc|Killed|timed out|CBMC timed out|"
                 r"unsupported_construct|is not currently supported by Kani", blk):
        r.error = "solver error / resource limit / unsupported construct"
        r.status = None
    return r


def parse_kani_output(text):
    """Split the terse output of one cargo-kani run (sequential or -j threaded) into per-harness results."""
    res = {}
    cur = {}  # thread id (or None) -> harness name
    blocks = {}  # harness -> list of lines
    active = None  # harness whose block we are appending to
    for line in text.splitlines():
        m = _HDR.match(line)
        if m:
            cur[m.group(1)] = m.group(2)
            blocks.setdefault(m.group(2), [])
            active = m.group(2) if m.group(1) is None else None
            continue
        m = _THR.match(line)
        if m:
            active = cur.get(m.group(1))
            continue
        if line.startswith("Manual Harness Summary") or line.startswith("Complete - "):
            active = None
            continue
        if active is not None:
            blocks[active].append(line)
    for name, lines in blocks.items():
        res[name] = _parse_block(name, "\n".join(lines))
    return res


def kani_env(gen_dir):
    env = dict(os.environ)
    env["CARGO_NET_OFFLINE"] = "true"
    env["VK_GEN_DIR"] = gen_dir
    env.pop("RUSTFLAGS", None)
    return env


def run_kani(cwd, harnesses, gen_dir, out_dir, *, package=None, jobs=12, extra=(), timeout_s=1500,
             per_harness_timeout=600, mem_gb=20, target_dir=KANI_TARGET, tag="run"):
    """Run cargo kani on an exact list of harness names; returns {name: HarnessResult}.

    A harness that produced no verdict (timeout, OOM, ICE, build failure) has status None.
    """
    cmd = ["cargo", "kani", "--target-dir", target_dir, "-Z", "stubbing", "-Z", "unstable-options",
           "--output-format", "terse", "--exact", "-j", str(jobs),
           "--harness-timeout", "%ds" % per_harness_timeout]
    if package:
        cmd += ["-p", package]
    cmd += list(extra)
    for h in harnesses:
        cmd += ["--harness", h]
    logp = os.path.join(out_dir, "kani-%s.log" % tag)
    shell = "ulimit -v %d; exec \"$@\"" % (mem_gb * 1024 * 1024)
    t0 = time.time()
    with open(logp, "w") as lf:
        try:
            p = subprocess.run(["bash", "-c", shell, "bash"] + cmd, cwd=cwd, env=kani_env(gen_dir),
                               stdout=lf, stderr=subprocess.STDOUT, timeout=timeout_s)
            rc = p.returncode
        except subprocess.TimeoutExpired:
            rc = -9
            subprocess.run(["pkill", "-x", "cbmc"])
    text = open(logp, errors="replace").read()
    res = parse_kani_output(text)
    short = {}
    for full, r in res.items():
        short[full] = r
    out = {}
    for h in harnesses:
        # Kani prints the fully qualified name; we asked with --exact on the same
        r = short.get(h)
        if r is None:
            cands = [v for k, v in short.items() if k.endswith("::" + h) or k == h]
            r = cands[0] if cands else None
        if r is None:
            r = HarnessResult(h)
            r.error = "no verdict (rc=%s)" % rc
        out[h] = r
    build_failed = ("error: could not compile" in text) or ("error[E" in text) or \
                   ("internal compiler error" in text) or ("Kani unexpectedly panicked" in text)
    return out, {"rc": rc, "wall_s": time.time() - t0, "log": logp, "build_failed": build_failed,
                 "text_tail": text[-3000:]}


_VEC = re.compile(r"^\s*vec!\[([0-9,\s]*)\],?\s*$")


def _playback_one(cwd, h, gen_dir, out_dir, package, extra, timeout_s, target_dir, idx):
    cmd = ["cargo", "kani", "--target-dir", target_dir, "-Z", "stubbing", "-Z", "concrete-playback",
           "--concrete-playback=print", "--exact", "--output-format", "terse", "--harness", h]
    if package:
        cmd += ["-p", package]
    cmd += list(extra)
    logp = os.path.join(out_dir, "playback-%d.log" % idx)
    with open(logp, "w") as lf:
        try:
            subprocess.run(cmd, cwd=cwd, env=kani_env(gen_dir), stdout=lf, stderr=subprocess.STDOUT, timeout=timeout_s)
        except subprocess.TimeoutExpired:
            pass
    return open(logp, errors="replace").read()


def concrete_values(cwd, harnesses, gen_dir, out_dir, *, package=None, extra=(), timeout_s=1500,
                    target_dir=KANI_TARGET, jobs=4):
    """Ask Kani for the counterexamples of failing harnesses as the list of byte vectors their
    kani::any() calls returned (--concrete-playback=print; that flag rejects -j, so one cargo-kani
    process per harness, run concurrently: the builds serialise on cargo's lock, the solver runs overlap).
    Returns {full_name: vals or None}."""
    from concurrent.futures import ThreadPoolExecutor
    out = {h: None for h in harnesses}
    # two cargo-kani processes on one crate clobber each other's goto binaries, so concurrent extraction needs
    # a target dir per process: affordable for slice crates (small dependency sets), not for the full crate
    par = package is None and len(harnesses) > 1
    with ThreadPoolExecutor(max_workers=jobs if par else 1) as ex:
        futs = {h: ex.submit(_playback_one, cwd, h, gen_dir, out_dir, package, extra, timeout_s,
                             (target_dir + "-pb%d" % i) if par and i > 0 else target_dir, i)
                for i, h in enumerate(harnesses)}
    for h, f in futs.items():
        text = f.result()
        m = re.search(r"let concrete_vals: Vec<Vec<u8>> = vec!\[(.*?)\n\s*\];", text, re.S)
        if not m:
            continue
        vals = []
        for line in m.group(1).splitlines():
            vm = _VEC.match(line)
            if vm:
                body = vm.group(1).strip()
                vals.append([int(x) for x in body.replace(" ", "").split(",") if x != ""])
        out[h] = vals
    return out, os.path.join(out_dir, "playback-0.log")


# ---------------------------------------------------------------------------
# native replay
# ---------------------------------------------------------------------------
RUNNER_MAIN = r'''
extern "Rust" { %(externs)s }
#[allow(unused_imports)]
use %(crate)s as _;
// native allocation monitor: largest single request since the last reset (read by harnesses whose property
// bounds allocation; under Kani the same number comes from a stubbed std::alloc::alloc)
#[no_mangle] pub static VK_NATIVE_MAX_ALLOC: std::sync::atomic::AtomicUsize = std::sync::atomic::AtomicUsize::new(0);
struct VkCounting;
unsafe impl std::alloc::GlobalAlloc for VkCounting {
    unsafe fn alloc(&self, l: std::alloc::Layout) -> *mut u8 {
        VK_NATIVE_MAX_ALLOC.fetch_max(l.size(), std::sync::atomic::Ordering::Relaxed);
        std::alloc::System.alloc(l)
    }
    unsafe fn dealloc(&self, p: *mut u8, l: std::alloc::Layout) { std::alloc::System.dealloc(p, l) }
    unsafe fn realloc(&self, p: *mut u8, l: std::alloc::Layout, n: usize) -> *mut u8 {
        VK_NATIVE_MAX_ALLOC.fetch_max(n, std::sync::atomic::Ordering::Relaxed);
        std::alloc::System.realloc(p, l, n)
    }
}
#[global_allocator] static VK_ALLOC: VkCounting = VkCounting;
fn main() {
    let a: Vec<String> = std::env::args().collect();
    let m = a[1].clone();
    let idx: usize = a[2].parse().unwrap();
    let r = std::panic::catch_unwind(move || unsafe { match m.as_str() { %(arms)s _ => panic!("VK-REPLAY-NOMOD") } });
    match r {
        Ok(()) => { println!("VK-REPLAY: PASSED"); }
        Err(e) => {
            let msg = if let Some(s) = e.downcast_ref::<String>() { s.clone() }
                      else if let Some(s) = e.downcast_ref::<&str>() { s.to_string() } else { "?".into() };
            if msg.contains("VK-REPLAY-") { println!("VK-REPLAY: UNFAITHFUL {}", msg); }
            else { println!("VK-REPLAY: REPRODUCED {}", msg.replace('\n', " ")); }
        }
    }
}
'''


def write_vals_file(path, vals):
    with open(path, "w") as f:
        f.write("vec![\n")
        for v in vals:
            f.write("    vec![%s],\n" % ", ".join(str(x) for x in v))
        f.write("]\n")


def native_build(crate_dir, crate_name, work_dir, mods, *, release=False, timeout_s=3000):
    """Build the runner binary against the (harness-injected, non-kani) crate at crate_dir.
    Returns (path to binary or None, build log tail)."""
    rd = os.path.join(work_dir, "runner")
    shutil.rmtree(rd, ignore_errors=True)
    os.makedirs(os.path.join(rd, "src"))
    with open(os.path.join(rd, "Cargo.toml"), "w") as f:
        f.write('[package]\nname = "vk_runner"\nversion = "0.0.0"\nedition = "2021"\n\n[workspace]\n\n'
                '[dependencies]\n%s = { path = "%s", default-features = false }\n'
                '\n[profile.dev]\ndebug = 0\nincremental = false\n[profile.release]\ndebug = 0\nincremental = false\n'
                % (crate_name, crate_dir))
    for cand in (os.path.join(crate_dir, "Cargo.lock"), os.path.join(REPO, "Cargo.lock")):
        if os.path.exists(cand):
            shutil.copy(cand, os.path.join(rd, "Cargo.lock"))
            break
    externs = " ".join("fn vk_replay_entry_%s(idx: usize);" % m for m in mods)
    arms = " ".join('"%s" => vk_replay_entry_%s(idx),' % (m, m) for m in mods)
    with open(os.path.join(rd, "src", "main.rs"), "w") as f:
        f.write(RUNNER_MAIN % {"crate": crate_name.replace("-", "_"), "externs": externs, "arms": arms})
    env = dict(os.environ)
    env["CARGO_NET_OFFLINE"] = "true"
    cmd = ["cargo", "build", "--offline", "--quiet", "--target-dir", NATIVE_TARGET]
    if release:
        cmd.append("--release")
    try:
        p = subprocess.run(cmd, cwd=rd, env=env, stdout=subprocess.PIPE, stderr=subprocess.STDOUT,
                           timeout=timeout_s, text=True, errors="replace")
    except subprocess.TimeoutExpired:
        return None, "native replay build timed out"
    binp = os.path.join(NATIVE_TARGET, "release" if release else "debug", "vk_runner")
    if p.returncode != 0 or not os.path.exists(binp):
        return None, p.stdout[-3000:]
    # copy out so that concurrent runs in other slots cannot overwrite it
    dst = os.path.join(work_dir, "vk_runner_" + ("rel" if release else "dev"))
    shutil.copy(binp, dst)
    return dst, ""


def native_run(binp, mod, idx, timeout_s=300):
    """Returns (verdict, message): REPRODUCED | PASSED | UNFAITHFUL | ERROR."""
    try:
        p = subprocess.run([binp, mod, str(idx)], stdout=subprocess.PIPE, stderr=subprocess.PIPE,
                           timeout=timeout_s, text=True, errors="replace")
    except subprocess.TimeoutExpired:
        return "ERROR", "native replay timed out"
    out = p.stdout + "\n" + p.stderr
    m = re.search(r"VK-REPLAY: (REPRODUCED|PASSED|UNFAITHFUL)(.*)", out)
    if not m:
        # a process abort (stack overflow, allocation failure, SIGSEGV/SIGABRT) reproduces a crash
        if (p.returncode is not None and p.returncode < 0) or "stack overflow" in out or "memory allocation" in out:
            return "REPRODUCED", "process aborted: rc=%s %s" % (p.returncode, out.strip()[-300:].replace("\n", " "))
        return "ERROR", out[-2000:]
    return m.group(1), m.group(2).strip()[:500]
