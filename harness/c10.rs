// C10 — lawful total orders on PropertyValue.
// Injected as a child module of src/graph/property.rs (scratch copy).
// Shapes (variant tags, container sizes) are concrete per harness; payloads are
// symbolic.  The generated file c10_gen.rs holds one proof per shape tuple.
#![allow(dead_code, unused_imports)]
include!("/verif/harness/vk_prelude.rs");

use super::{cypher_order, PropertyValue};
use std::cmp::Ordering;
use std::collections::HashMap;
use std::hash::{Hash, Hasher};

/// Recording hasher: "hash equally" is judged on the exact stream of bytes a
/// value feeds to *any* Hasher (recorded verbatim, compared byte by byte), so
/// there is no collision that could hide a difference and no false alarm.
const REC_CAP: usize = 40;
struct Rec {
    buf: [u8; REC_CAP],
    len: usize,
}
impl Hasher for Rec {
    fn finish(&self) -> u64 {
        0
    }
    fn write(&mut self, bytes: &[u8]) {
        for b in bytes {
            assert!(self.len < REC_CAP, "harness: hash stream longer than recorder");
            self.buf[self.len] = *b;
            self.len += 1;
        }
    }
}
fn rec(v: &PropertyValue) -> Rec {
    let mut r = Rec { buf: [0; REC_CAP], len: 0 };
    v.hash(&mut r);
    r
}
fn same_hash_stream(a: &PropertyValue, b: &PropertyValue) -> bool {
    let (ra, rb) = (rec(a), rec(b));
    if ra.len != rb.len {
        return false;
    }
    let mut i = 0;
    while i < ra.len {
        if ra.buf[i] != rb.buf[i] {
            return false;
        }
        i += 1;
    }
    true
}

// Tag alphabet (concrete at every call site, so CBMC folds the match):
//  0 Boolean  1 Integer  2 Float  3 DateTime  4 Duration  5 Null
//  6 String(len 0) 7 String(len 1) 8 String(len 2)
//  9 Vector(len 0) 10 Vector(len 1) 11 Vector(len 2)
// 12 Array(len 0) 13 Array([Integer]) 14 Array([Float]) 15 Array([Integer, Float])
// 16 Map{} 17 Map{"k": Integer} 18 Map{"k": Float}
// 19 Array([Null]) 20 Array([Array([Integer])])
#[inline(always)]
fn ascii() -> char {
    let b: u8 = kani::any();
    kani::assume(b < 128);
    b as char
}
#[inline(always)]
fn f64n(nan: &mut bool) -> f64 {
    let f: f64 = kani::any();
    if f.is_nan() {
        *nan = true;
    }
    f
}
#[inline(always)]
fn f32n(nan: &mut bool) -> f32 {
    let f: f32 = kani::any();
    if f.is_nan() {
        *nan = true;
    }
    f
}
/// Build a value of the given concrete shape; `nan` is set when some float payload is a NaN
/// (the region of the recorded finding C10-nan-eq, see /verif/known_findings.jsonl).
#[inline(always)]
pub fn mk(tag: u8, nan: &mut bool) -> PropertyValue {
    match tag {
        0 => PropertyValue::Boolean(kani::any()),
        1 => PropertyValue::Integer(kani::any()),
        2 => PropertyValue::Float(f64n(nan)),
        3 => PropertyValue::DateTime(kani::any()),
        4 => PropertyValue::Duration {
            months: kani::any(),
            days: kani::any(),
            seconds: kani::any(),
            nanos: kani::any(),
        },
        5 => PropertyValue::Null,
        6 => PropertyValue::String(String::new()),
        7 => {
            let mut s = String::new();
            s.push(ascii());
            PropertyValue::String(s)
        }
        8 => {
            let mut s = String::new();
            s.push(ascii());
            s.push(ascii());
            PropertyValue::String(s)
        }
        9 => PropertyValue::Vector(Vec::new()),
        10 => PropertyValue::Vector(vec![f32n(nan)]),
        11 => PropertyValue::Vector(vec![f32n(nan), f32n(nan)]),
        12 => PropertyValue::Array(Vec::new()),
        13 => PropertyValue::Array(vec![PropertyValue::Integer(kani::any())]),
        14 => PropertyValue::Array(vec![PropertyValue::Float(f64n(nan))]),
        15 => PropertyValue::Array(vec![
            PropertyValue::Integer(kani::any()),
            PropertyValue::Float(f64n(nan)),
        ]),
        16 => PropertyValue::Map(HashMap::new()),
        17 => {
            let mut m = HashMap::new();
            m.insert("k".to_string(), PropertyValue::Integer(kani::any()));
            PropertyValue::Map(m)
        }
        18 => {
            let mut m = HashMap::new();
            m.insert("k".to_string(), PropertyValue::Float(f64n(nan)));
            PropertyValue::Map(m)
        }
        19 => PropertyValue::Array(vec![PropertyValue::Null]),
        _ => PropertyValue::Array(vec![PropertyValue::Array(vec![PropertyValue::Integer(
            kani::any(),
        )])]),
    }
}

fn le(o: Ordering) -> bool {
    o != Ordering::Greater
}
fn lt(o: Ordering) -> bool {
    o == Ordering::Less
}

/// Laws over one value: reflexivity of both orders and of `==`.
/// `nan_region` selects which side of the recorded-finding split the Eq clause is asserted on.
pub fn unary_laws(ta: u8, nan_region: bool) {
    let mut nan = false;
    let a = mk(ta, &mut nan);
    if !nan_region {
        assert!(a.cmp(&a) == Ordering::Equal, "C10 Ord reflexive");
        assert!(a.partial_cmp(&a) == Some(Ordering::Equal), "C10 PartialOrd agrees");
        assert!(cypher_order(&a, &a) == Ordering::Equal, "C10 cypher_order reflexive");
    }
    if nan == nan_region {
        assert!(a == a, "C10 Eq reflexive");
    }
    vk_cover!(nan == nan_region, "reach");
    std::mem::forget(a);
}

/// Laws over an ordered pair.
pub fn pair_laws(ta: u8, tb: u8, nan_region: bool) {
    let mut nan = false;
    let a = mk(ta, &mut nan);
    let b = mk(tb, &mut nan);
    let ab = a.cmp(&b);
    let ba = b.cmp(&a);
    let cab = cypher_order(&a, &b);
    let cba = cypher_order(&b, &a);
    if !nan_region {
        assert!(ab == ba.reverse(), "C10 Ord antisymmetric");
        assert!(a.partial_cmp(&b) == Some(ab), "C10 PartialOrd agrees with Ord");
        assert!(cab == cba.reverse(), "C10 cypher_order antisymmetric");
        assert!((a == b) == (b == a), "C10 Eq symmetric");
        if a == b {
            assert!(same_hash_stream(&a, &b), "C10 equal values hash equally");
            assert!(cab == Ordering::Equal, "C10 cypher_order: equal values tie");
            assert!(ab == Ordering::Equal, "C10 equal values compare Equal");
        }
    }
    if nan == nan_region {
        assert!((ab == Ordering::Equal) == (a == b), "C10 Ord agrees with Eq");
    }
    vk_cover!(ab == Ordering::Less && nan == nan_region, "reach lt");
    vk_cover!(nan == nan_region, "reach");
    std::mem::forget((a, b));
}

/// Transitivity of the index order over an ordered triple.
pub fn triple_ord(ta: u8, tb: u8, tc: u8) {
    let mut nan = false;
    let a = mk(ta, &mut nan);
    let b = mk(tb, &mut nan);
    let c = mk(tc, &mut nan);
    let ab = a.cmp(&b);
    let bc = b.cmp(&c);
    let ac = a.cmp(&c);
    if le(ab) && le(bc) {
        assert!(le(ac), "C10 Ord transitive (<=)");
        if lt(ab) || lt(bc) {
            assert!(lt(ac), "C10 Ord transitive (<)");
        }
    }
    vk_cover!(true, "reach");
    std::mem::forget((a, b, c));
}

/// Transitivity of the ORDER BY preorder over an ordered triple.
pub fn triple_cypher(ta: u8, tb: u8, tc: u8) {
    let mut nan = false;
    let a = mk(ta, &mut nan);
    let b = mk(tb, &mut nan);
    let c = mk(tc, &mut nan);
    let ab = cypher_order(&a, &b);
    let bc = cypher_order(&b, &c);
    let ac = cypher_order(&a, &c);
    if le(ab) && le(bc) {
        assert!(le(ac), "C10 cypher_order transitive (<=)");
        if lt(ab) || lt(bc) {
            assert!(lt(ac), "C10 cypher_order transitive (<)");
        }
    }
    vk_cover!(true, "reach");
    std::mem::forget((a, b, c));
}

include!(concat!(env!("VK_GEN_DIR"), "/c10_gen.rs"));
