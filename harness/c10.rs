// C10 — lawful total orders on PropertyValue.
// Injected as a child module of src/graph/property.rs (scratch copy).
// Shapes (variant tags, container sizes) are concrete per harness; payloads are
// symbolic.  The generated file c10_gen.rs holds one proof per shape tuple.
#![allow(dead_code, unused_imports)]
include!("/verif/harness/vk_prelude.rs");

use super::{cypher_order, PropertyValue};
use std::cmp::Ordering;
use std::collections::HashMap;
use std::hash::{Hash, Hasher};

/// Recording hasher: "hash equally" is judged on the exact stream of bytes a
/// value feeds to *any* Hasher, folded injectively enough (FNV-1a, 64 bit) —
/// two different streams that collide in FNV would be a false pass, two equal
/// streams always fold equally, so there are no false alarms.
struct Rec(u64, u64);
impl Hasher for Rec {
    fn finish(&self) -> u64 {
        self.0 ^ self.1.rotate_left(32)
    }
    fn write(&mut self, bytes: &[u8]) {
        for b in bytes {
            self.0 = (self.0 ^ (*b as u64)).wrapping_mul(0x100000001b3);
            self.1 = self.1.wrapping_add(1);
        }
    }
}
fn h(v: &PropertyValue) -> u64 {
    let mut r = Rec(0xcbf29ce484222325, 0);
    v.hash(&mut r);
    r.finish()
}

// Tag alphabet (concrete at every call site, so CBMC folds the match):
//  0 Boolean  1 Integer  2 Float  3 DateTime  4 Duration  5 Null
//  6 String(len 0) 7 String(len 1) 8 String(len 2)
//  9 Vector(len 0) 10 Vector(len 1) 11 Vector(len 2)
// 12 Array(len 0) 13 Array([Integer]) 14 Array([Float]) 15 Array([Integer, Float])
// 16 Map{} 17 Map{"k": Integer} 18 Map{"k": Float}
// 19 Array([Null]) 20 Array([Array([Integer])])
#[inline(always)]
fn ascii() -> char {
    let b: u8 = kani::any();
    kani::assume(b < 128);
    b as char
}
#[inline(always)]
pub fn mk(tag: u8) -> PropertyValue {
    match tag {
        0 => PropertyValue::Boolean(kani::any()),
        1 => PropertyValue::Integer(kani::any()),
        2 => PropertyValue::Float(kani::any()),
        3 => PropertyValue::DateTime(kani::any()),
        4 => PropertyValue::Duration {
            months: kani::any(),
            days: kani::any(),
            seconds: kani::any(),
            nanos: kani::any(),
        },
        5 => PropertyValue::Null,
        6 => PropertyValue::String(String::new()),
        7 => {
            let mut s = String::new();
            s.push(ascii());
            PropertyValue::String(s)
        }
        8 => {
            let mut s = String::new();
            s.push(ascii());
            s.push(ascii());
            PropertyValue::String(s)
        }
        9 => PropertyValue::Vector(Vec::new()),
        10 => PropertyValue::Vector(vec![kani::any()]),
        11 => PropertyValue::Vector(vec![kani::any(), kani::any()]),
        12 => PropertyValue::Array(Vec::new()),
        13 => PropertyValue::Array(vec![PropertyValue::Integer(kani::any())]),
        14 => PropertyValue::Array(vec![PropertyValue::Float(kani::any())]),
        15 => PropertyValue::Array(vec![
            PropertyValue::Integer(kani::any()),
            PropertyValue::Float(kani::any()),
        ]),
        16 => PropertyValue::Map(HashMap::new()),
        17 => {
            let mut m = HashMap::new();
            m.insert("k".to_string(), PropertyValue::Integer(kani::any()));
            PropertyValue::Map(m)
        }
        18 => {
            let mut m = HashMap::new();
            m.insert("k".to_string(), PropertyValue::Float(kani::any()));
            PropertyValue::Map(m)
        }
        19 => PropertyValue::Array(vec![PropertyValue::Null]),
        _ => PropertyValue::Array(vec![PropertyValue::Array(vec![PropertyValue::Integer(
            kani::any(),
        )])]),
    }
}

fn le(o: Ordering) -> bool {
    o != Ordering::Greater
}
fn lt(o: Ordering) -> bool {
    o == Ordering::Less
}

/// Laws over one value: reflexivity of both orders and of `==`.
pub fn unary_laws(ta: u8) {
    let a = mk(ta);
    assert!(a.cmp(&a) == Ordering::Equal, "C10 Ord reflexive");
    assert!(a == a, "C10 Eq reflexive");
    assert!(a.partial_cmp(&a) == Some(Ordering::Equal), "C10 PartialOrd agrees");
    assert!(cypher_order(&a, &a) == Ordering::Equal, "C10 cypher_order reflexive");
    vk_cover!(true, "reach");
    std::mem::forget(a);
}

/// Laws over an ordered pair.
pub fn pair_laws(ta: u8, tb: u8) {
    let a = mk(ta);
    let b = mk(tb);
    let ab = a.cmp(&b);
    let ba = b.cmp(&a);
    assert!(ab == ba.reverse(), "C10 Ord antisymmetric");
    assert!((ab == Ordering::Equal) == (a == b), "C10 Ord agrees with Eq");
    assert!((a == b) == (b == a), "C10 Eq symmetric");
    assert!(a.partial_cmp(&b) == Some(ab), "C10 PartialOrd agrees with Ord");
    if a == b {
        assert!(h(&a) == h(&b), "C10 equal values hash equally");
    }
    let cab = cypher_order(&a, &b);
    let cba = cypher_order(&b, &a);
    assert!(cab == cba.reverse(), "C10 cypher_order antisymmetric");
    if a == b {
        assert!(cab == Ordering::Equal, "C10 cypher_order: equal values tie");
    }
    vk_cover!(ab == Ordering::Less, "reach lt");
    vk_cover!(true, "reach");
    std::mem::forget((a, b));
}

/// Transitivity of the index order over an ordered triple.
pub fn triple_ord(ta: u8, tb: u8, tc: u8) {
    let a = mk(ta);
    let b = mk(tb);
    let c = mk(tc);
    let ab = a.cmp(&b);
    let bc = b.cmp(&c);
    let ac = a.cmp(&c);
    if le(ab) && le(bc) {
        assert!(le(ac), "C10 Ord transitive (<=)");
        if lt(ab) || lt(bc) {
            assert!(lt(ac), "C10 Ord transitive (<)");
        }
    }
    vk_cover!(true, "reach");
    std::mem::forget((a, b, c));
}

/// Transitivity of the ORDER BY preorder over an ordered triple.
pub fn triple_cypher(ta: u8, tb: u8, tc: u8) {
    let a = mk(ta);
    let b = mk(tb);
    let c = mk(tc);
    let ab = cypher_order(&a, &b);
    let bc = cypher_order(&b, &c);
    let ac = cypher_order(&a, &c);
    if le(ab) && le(bc) {
        assert!(le(ac), "C10 cypher_order transitive (<=)");
        if lt(ab) || lt(bc) {
            assert!(lt(ac), "C10 cypher_order transitive (<)");
        }
    }
    vk_cover!(true, "reach");
    std::mem::forget((a, b, c));
}

include!(concat!(env!("VK_GEN_DIR"), "/c10_gen.rs"));
