// C14 — imported snapshots survive restart and crashes during persistence.
// Child module of src/snapshot/persist.rs (current file, `vslice_persist` slice crate: `use std::fs` and
// `use std::path` redirected to the simfs model, GraphStore / import_tenant_with_dedup replaced by a recorder
// that notes which content it was handed).  The crash call number and the power-loss bits are symbolic.
#![allow(dead_code, unused_imports, static_mut_refs)]
include!("/verif/harness/vk_prelude.rs");

use super::*;
use crate::simfs;

const MAXCALLS: usize = 16; // more fs calls than one persist_snapshot makes (asserted)

fn restore_outcome() -> (bool, Option<u8>) {
    // (restore returned Err, content handed to the importer)
    let mut store = GraphStore::new();
    let r = restore_persisted_snapshots("d", &mut store);
    let out = (r.is_err(), store.imported);
    std::mem::forget(r);
    out
}

/// k imports (contents 1..=k); the first k-1 complete, the k-th dies at a symbolic fs call (or completes);
/// then a restart after a process crash or after power loss with symbolic survival bits; then restore.
pub fn crash_history(k: u8, power_loss: bool) {
    simfs::reset();
    let mut i: u8 = 1;
    while i < k {
        let r = persist_snapshot("d", &[i]);
        assert!(r.is_ok(), "C14 persist failed without any fault");
        std::mem::forget(r);
        i += 1;
    }
    let crash_at: usize = kani::any();
    kani::assume(crash_at >= 1 && crash_at <= MAXCALLS);
    simfs::arm_crash(crash_at);
    let r = persist_snapshot("d", &[k]);
    let acknowledged = r.is_ok();
    assert!(simfs::calls_made() < MAXCALLS, "harness: MAXCALLS too small for persist_snapshot");
    // a crashed process does not acknowledge
    if simfs::crashed() {
        assert!(!acknowledged, "C14 import acknowledged although persistence did not complete");
    }
    let keep: [bool; 5] = kani::any();
    let rot: [bool; 12] = kani::any();
    simfs::reboot(power_loss, keep, rot);
    let (err, got) = restore_outcome();
    assert!(!err, "C14 restart failed to restore (corrupt or unreadable snapshot state)");
    assert!(got != Some(simfs::GARBAGE) && got != Some(simfs::EMPTY), "C14 restart restored a partial/corrupt snapshot");
    if acknowledged {
        assert!(got == Some(k), "C14 an acknowledged import is not what a restart restores");
    } else {
        let prev = if k > 1 { Some(k - 1) } else { None };
        assert!(got == prev || got == Some(k), "C14 crash during persistence lost the previous acknowledged import");
    }
    vk_cover!(!acknowledged && got == Some(k), "reach crashed but new one restored");
    vk_cover!(!acknowledged && k > 1 && got == Some(k - 1), "reach crashed and previous restored");
    vk_cover!(acknowledged, "reach acknowledged");
    std::mem::forget(r);
}

/// A client whose import was not acknowledged retries it: k-1 completed imports, the k-th dies at a symbolic
/// call, restart (either crash model), the SAME import is persisted again and acknowledged, restart again
/// (both crash models for this second restart are covered by `power_loss2`): the retried import is restored.
pub fn crash_then_retry(k: u8, power_loss: bool) {
    simfs::reset();
    let mut i: u8 = 1;
    while i < k {
        let r = persist_snapshot("d", &[i]);
        assert!(r.is_ok(), "C14 persist failed without any fault");
        std::mem::forget(r);
        i += 1;
    }
    let crash_at: usize = kani::any();
    kani::assume(crash_at >= 1 && crash_at <= MAXCALLS);
    simfs::arm_crash(crash_at);
    let r = persist_snapshot("d", &[k]);
    std::mem::forget(r);
    let keep: [bool; 5] = kani::any();
    let rot: [bool; 12] = kani::any();
    simfs::reboot(power_loss, keep, rot);
    // the retry, with no fault
    let r2 = persist_snapshot("d", &[k]);
    assert!(r2.is_ok(), "C14 retrying an import after a crash failed");
    std::mem::forget(r2);
    let power_loss2: bool = kani::any();
    let keep2: [bool; 5] = kani::any();
    let rot2: [bool; 12] = kani::any();
    simfs::reboot(power_loss2, keep2, rot2);
    let (err, got) = restore_outcome();
    assert!(!err && got == Some(k), "C14 an acknowledged (retried) import is not what a restart restores");
    vk_cover!(true, "reach");
}

/// clean restarts: after each of k acknowledged imports a restart restores that import.
pub fn clean_history(k: u8) {
    simfs::reset();
    let mut i: u8 = 1;
    while i <= k {
        let r = persist_snapshot("d", &[i]);
        assert!(r.is_ok(), "C14 persist failed without any fault");
        std::mem::forget(r);
        let (err, got) = restore_outcome();
        assert!(!err && got == Some(i), "C14 clean restart does not restore the last acknowledged import");
        i += 1;
    }
    // and with nothing persisted, nothing is restored
    simfs::reset();
    let (err, got) = restore_outcome();
    assert!(!err && got.is_none(), "C14 restore invented a snapshot");
    vk_cover!(true, "reach");
}

include!(concat!(env!("VK_GEN_DIR"), "/c14_gen.rs"));
