// Cache-warming harness: forces cargo-kani to build every dependency once.
#[kani::proof]
fn warm() {
    let a: i64 = kani::any();
    let v = crate::graph::PropertyValue::Integer(a);
    assert!(v.cmp(&v) == core::cmp::Ordering::Equal);
}
