// Cache-warming harness: forces cargo-kani to build every dependency once.
include!("/verif/harness/vk_prelude.rs");
vk_proof! {
fn warm() {
    let a: i64 = kani::any();
    let v = crate::graph::PropertyValue::Integer(a);
    assert!(v.cmp(&v) == core::cmp::Ordering::Equal);
}
}
