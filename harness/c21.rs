// C21 / C20 / C22 — RESP decoder and encoder.
// Child module of src/protocol/resp.rs (current file of /repo, compiled in the `vslice_resp` slice crate:
// the file depends only on `bytes`, `thiserror` and std, all real).
//
// Compositional structure (DESIGN.md R3/R4).  CBMC cannot carry a copy whose length AND offset are both
// symbolic, and the position of the first CRLF in a buffer of symbolic bytes is exactly that.  So:
//   * family `readline`: the real `read_line` is checked against its specification (first CRLF wins, the
//     line is returned without it, the cursor moves past it, nothing else changes) on every buffer of n bytes;
//   * every other family replaces `read_line` (kani::stub) by `read_line_model`, which IS that specification
//     with the CRLF position supplied by the shape: it assumes "the first CRLF of the remaining buffer is at
//     POS[k]" (or "there is none"), so all bytes that are not pinned by the shape stay symbolic over all 256
//     values, and the set of shapes enumerates every CRLF layout within the bound.
// Native replay runs the real read_line (no stub), so a counterexample that depends on the model is discarded.
#![allow(dead_code, unused_imports, static_mut_refs)]
include!("/verif/harness/vk_prelude.rs");

use super::*;
use bytes::BytesMut;

pub const NOLINE: usize = usize::MAX;
static mut VK_POS: [usize; 8] = [NOLINE; 8];
static mut VK_CALL: usize = 0;
static mut VK_MAX_ALLOC: usize = 0;

#[cfg(not(kani))]
extern "Rust" {
    static VK_NATIVE_MAX_ALLOC: std::sync::atomic::AtomicUsize; // defined by the replay runner (counting allocator)
}
/// largest single allocation request since the last set_layout()
fn max_alloc() -> usize {
    #[cfg(kani)]
    return unsafe { VK_MAX_ALLOC };
    #[cfg(not(kani))]
    return unsafe { VK_NATIVE_MAX_ALLOC.load(std::sync::atomic::Ordering::Relaxed) };
}
fn set_layout(pos: &[usize]) {
    #[cfg(not(kani))]
    unsafe {
        VK_NATIVE_MAX_ALLOC.store(0, std::sync::atomic::Ordering::Relaxed);
    }
    // straight-line (no loop: the unwind bound is spent on the code under test)
    let g = |i: usize| if i < pos.len() { pos[i] } else { NOLINE };
    unsafe {
        VK_CALL = 0;
        VK_MAX_ALLOC = 0;
        VK_POS = [g(0), g(1), g(2), g(3), g(4), g(5), g(6), g(7)];
    }
}

/// Specification of read_line: position of the first "\r\n" in `b`, if any.
fn first_crlf(b: &[u8]) -> Option<usize> {
    let mut i = 0;
    while i + 1 < b.len() {
        if b[i] == b'\r' && b[i + 1] == b'\n' {
            return Some(i);
        }
        i += 1;
    }
    None
}

/// Stub for RespValue::read_line in composition harnesses (under Kani only).
#[cfg(kani)]
fn read_line_model(buf: &mut &[u8]) -> RespResult<Option<Vec<u8>>> {
    let k = unsafe { VK_CALL };
    unsafe { VK_CALL += 1 };
    let pos = if k < 8 { unsafe { VK_POS[k] } } else { NOLINE };
    if pos == NOLINE || pos + 2 > buf.len() {
        kani::assume(first_crlf(buf).is_none());
        return Ok(None);
    }
    kani::assume(first_crlf(buf) == Some(pos));
    let line = buf[..pos].to_vec();
    *buf = &buf[pos + 2..];
    Ok(Some(line))
}

/// Allocation monitor (stub for std::alloc::dealloc under Kani): records the largest block released.
/// Every temporary the decoder allocates (the element vector of an incomplete array, line copies) is
/// released before it returns, so its size is seen here; what it returns is inspected through capacity().
/// The block is leaked instead of freed (irrelevant to the properties; like mem::forget).
/// Second monitor, for the header-only harnesses: stub for std::alloc::alloc that records the largest single
/// request and forwards to alloc_zeroed (Kani 0.68 does not route Vec's release through the stubbed
/// `dealloc`, so temporaries are seen on the way in).
#[cfg(kani)]
unsafe fn vk_alloc(layout: std::alloc::Layout) -> *mut u8 {
    if layout.size() > VK_MAX_ALLOC {
        VK_MAX_ALLOC = layout.size();
    }
    std::alloc::alloc_zeroed(layout)
}
#[cfg(kani)]
unsafe fn vk_dealloc(_ptr: *mut u8, layout: std::alloc::Layout) {
    if layout.size() > VK_MAX_ALLOC {
        VK_MAX_ALLOC = layout.size();
    }
}

/// Outcome classes of the statement: a value, "need more data", or a protocol error.
fn classify(r: &RespResult<Option<RespValue>>) -> u8 {
    match r {
        Ok(Some(_)) => 0,
        Ok(None) => 1,
        Err(RespError::Incomplete) => 1,
        Err(_) => 2,
    }
}

// ---------------------------------------------------------------------------------------------------
// family readline: the real read_line against its specification, every buffer of N bytes
// ---------------------------------------------------------------------------------------------------
pub fn readline_spec<const N: usize>() {
    let bytes: [u8; N] = kani::any();
    let mut cur: &[u8] = &bytes[..];
    let r = RespValue::read_line(&mut cur);
    match (first_crlf(&bytes), &r) {
        (None, Ok(None)) => assert!(cur.len() == N, "C20 read_line consumed without a line"),
        (Some(p), Ok(Some(line))) => {
            assert!(line.len() == p, "C21 read_line: line is everything before the first CRLF");
            let mut i = 0;
            while i < p {
                assert!(line[i] == bytes[i], "C21 read_line: line bytes");
                i += 1;
            }
            assert!(cur.len() == N - p - 2, "C20 read_line: cursor moves just past the CRLF");
        }
        _ => assert!(false, "C21 read_line disagrees with its specification"),
    }
    vk_cover!(r.is_ok(), "reach");
    std::mem::forget(r);
}

// ---------------------------------------------------------------------------------------------------
// family line: one-line frames  <ty> <h symbolic bytes> CRLF <t symbolic trailing bytes>
// ty == 0: the first byte is symbolic too but not one of + - : $ * _  (inline command)
// ---------------------------------------------------------------------------------------------------
pub fn line_frame<const H: usize, const T: usize>(ty: u8) {
    let hdr: [u8; H] = kani::any();
    let tail: [u8; T] = kani::any();
    let mut v: Vec<u8> = Vec::with_capacity(H + T + 3);
    let t0: u8 = if ty != 0 { ty } else { kani::any() };
    if ty == 0 {
        kani::assume(t0 != b'+' && t0 != b'-' && t0 != b':' && t0 != b'$' && t0 != b'*' && t0 != b'_');
    }
    v.push(t0);
    if H > 0 {
        v.extend_from_slice(&hdr); // (a zero-length copy from a dangling pointer costs CBMC minutes)
    }
    v.push(b'\r');
    v.push(b'\n');
    if T > 0 {
        v.extend_from_slice(&tail);
    }
    let n = v.len();
    set_layout(&[H + 1]);
    let mut buf = BytesMut::from(&v[..]);
    let r = RespValue::decode(&mut buf);
    let c = classify(&r);
    assert!(c != 1, "C20 a complete line frame was answered with 'need more data'");
    // a value or an error: exactly this frame was consumed, the following bytes are untouched
    assert!(buf.len() == T, "C20 a one-line frame consumes exactly itself");
    let mut i = 0;
    while i < T {
        assert!(buf[i] == tail[i], "C20 bytes after the frame are untouched");
        i += 1;
    }
    if let Ok(Some(val)) = &r {
        match (t0, val) {
            (b'+', RespValue::SimpleString(s)) | (b'-', RespValue::Error(s)) => {
                assert!(s.len() == H, "C20 line content length");
            }
            (b':', RespValue::Integer(_)) => {}
            (b'_', RespValue::Null) => assert!(H == 0, "C21 null frame with content accepted"),
            (_, RespValue::Array(_)) => assert!(ty == 0, "C21 inline array from a typed frame"),
            _ => assert!(false, "C20 frame decoded to a value of another type"),
        }
    }
    let _ = n;
    vk_cover!(c == 0, "reach value");
    vk_cover!(c == 2 || ty == b'+' || ty == b'-', "reach error");
    std::mem::forget((r, buf, v));
}

/// no CRLF yet: <ty> <h symbolic bytes>, nothing may be consumed
pub fn line_incomplete<const H: usize>(ty: u8) {
    let hdr: [u8; H] = kani::any();
    let mut v: Vec<u8> = Vec::with_capacity(H + 1);
    let t0: u8 = if ty != 0 { ty } else { kani::any() };
    v.push(t0);
    if H > 0 {
        v.extend_from_slice(&hdr); // (a zero-length copy from a dangling pointer costs CBMC minutes)
    }
    set_layout(&[]);
    let mut buf = BytesMut::from(&v[..]);
    let r = RespValue::decode(&mut buf);
    assert!(classify(&r) == 1, "C20 a frame without its CRLF must ask for more data");
    assert!(buf.len() == H + 1, "C20 decoder consumed bytes although it asked for more data");
    vk_cover!(true, "reach");
    std::mem::forget((r, buf, v));
}

// ---------------------------------------------------------------------------------------------------
// family bulk:  $ <h symbolic header bytes> CRLF <p symbolic bytes>      (everything after the header
// line is symbolic, including whether the payload's CRLF is there)
// ---------------------------------------------------------------------------------------------------
pub fn bulk_frame<const H: usize, const P: usize>() {
    let hdr: [u8; H] = kani::any();
    let rest: [u8; P] = kani::any();
    let mut v: Vec<u8> = Vec::with_capacity(H + P + 3);
    v.push(b'$');
    if H > 0 {
        v.extend_from_slice(&hdr); // (a zero-length copy from a dangling pointer costs CBMC minutes)
    }
    v.push(b'\r');
    v.push(b'\n');
    if P > 0 {
        v.extend_from_slice(&rest);
    }
    let n = v.len();
    set_layout(&[H + 1]);
    let mut buf = BytesMut::from(&v[..]);
    let r = RespValue::decode(&mut buf);
    let c = classify(&r);
    if c == 1 {
        assert!(buf.len() == n, "C20 decoder consumed bytes although it asked for more data");
    }
    match &r {
        Ok(Some(RespValue::BulkString(None))) => {
            assert!(buf.len() == P, "C20 null bulk string consumes exactly its header line");
            assert!(H == 2 && hdr[0] == b'-' && hdr[1] == b'1', "C21 a length other than -1 decoded as the null bulk string");
        }
        Ok(Some(RespValue::BulkString(Some(d)))) => {
            assert!(!(H == 2 && hdr[0] == b'-' && hdr[1] == b'1'), "C21 length -1 must decode as the null bulk string");
            // payload of length L followed by CRLF, consumed exactly
            let l = d.len();
            assert!(l + 2 <= P, "C21 bulk payload longer than what was received");
            assert!(buf.len() == P - l - 2, "C20 bulk string consumes header + payload + CRLF");
            assert!(rest[l] == b'\r' && rest[l + 1] == b'\n', "C20 bulk payload not terminated by CRLF");
            let mut i = 0;
            while i < l {
                assert!(d[i] == rest[i], "C20 bulk payload bytes");
                i += 1;
            }
        }
        Ok(Some(_)) => assert!(false, "C20 bulk frame decoded to a value of another type"),
        _ => {}
    }
    // a proper prefix of a well-formed bulk frame must be answered with "need more data", never with an error
    // (an error drops the bytes read so far and the rest of the frame is then parsed as garbage)
    if H >= 1 {
        let mut all_digits = true;
        let mut l: usize = 0;
        let mut k = 0;
        while k < H {
            if hdr[k] >= b'0' && hdr[k] <= b'9' {
                l = l * 10 + (hdr[k] - b'0') as usize;
            } else {
                all_digits = false;
            }
            k += 1;
        }
        if all_digits && P < l + 2 && (P <= l || rest[l] == b'\r') {
            assert!(c == 1, "C20 a proper prefix of a bulk frame was not answered with 'need more data'");
        }
        if all_digits && P >= l + 2 && rest[l] == b'\r' && rest[l + 1] == b'\n' {
            assert!(c == 0, "C20 a complete bulk frame was not decoded");
        }
    }
    // allocation: nothing the decoder asks for exceeds a small multiple of the bytes received
    assert!(max_alloc() <= 64 + 40 * n, "C21 allocation larger than a small multiple of the bytes received");
    vk_cover!(matches!(&r, Ok(Some(RespValue::BulkString(Some(d)))) if d.len() > 0), "reach payload");
    vk_cover!(c == 1, "reach need-more");
    vk_cover!(c == 2, "reach error");
    std::mem::forget((r, buf, v));
}

// ---------------------------------------------------------------------------------------------------
// family array:  * <h symbolic header bytes> CRLF  followed by K element slots of the form  <x> CRLF
// where x is a symbolic RESP type byte: '_' is a null, '+'/'-' an empty line, ':' '$' '*' a malformed element.  The declared count is symbolic (header bytes).
// ---------------------------------------------------------------------------------------------------
pub fn array_frame<const H: usize, const K: usize>() {
    let hdr: [u8; H] = kani::any();
    let xs: [u8; K] = kani::any();
    let mut v: Vec<u8> = Vec::with_capacity(H + 3 * K + 3);
    v.push(b'*');
    if H > 0 {
        v.extend_from_slice(&hdr); // (a zero-length copy from a dangling pointer costs CBMC minutes)
    }
    v.push(b'\r');
    v.push(b'\n');
    let mut i = 0;
    while i < K {
        // element type byte: one of the RESP type characters (one-letter inline commands as elements are
        // left to the `line` family; they pull the whole inline tokenizer into every element)
        kani::assume(xs[i] == b'_' || xs[i] == b'+' || xs[i] == b'-' || xs[i] == b':' || xs[i] == b'$' || xs[i] == b'*');
        v.push(xs[i]);
        v.push(b'\r');
        v.push(b'\n');
        i += 1;
    }
    let n = v.len();
    // every read_line call after the header sees an element slot: CRLF at relative position 1
    set_layout(&[H + 1, 1, 1, 1, 1, 1, 1, 1]);
    let mut buf = BytesMut::from(&v[..]);
    let r = RespValue::decode(&mut buf);
    let c = classify(&r);
    if c == 1 {
        assert!(buf.len() == n, "C20 decoder consumed bytes although it asked for more data");
    }
    if let Ok(Some(val)) = &r {
        match val {
            RespValue::Array(items) => {
                let m = items.len();
                assert!(m <= K, "C21 array with more elements than were received");
                assert!(buf.len() == 3 * (K - m), "C20 array consumes its header and exactly its elements");
                assert!(items.capacity() <= 2 * n + 4, "C21 array storage larger than a small multiple of the bytes received");
            }
            _ => assert!(false, "C20 array frame decoded to a value of another type"),
        }
    }
    assert!(max_alloc() <= 64 + 40 * n, "C21 allocation larger than a small multiple of the bytes received");
    vk_cover!(matches!(&r, Ok(Some(RespValue::Array(items))) if items.len() == K && K > 0), "reach full array");
    vk_cover!(c == 1, "reach need-more");
    vk_cover!(c == 2, "reach error");
    std::mem::forget((r, buf, v));
}

/// Arrays with elements: the declared count is a concrete digit, followed by K complete elements of the
/// form `+x CRLF` with x symbolic (any byte but CR).  count <= K: an array of exactly `count` elements and
/// exactly its bytes consumed (the rest is the next frame); count > K: need more data, nothing consumed.
/// (A symbolic count with symbolic element types makes the element loop fork 6 ways per iteration up to the
/// unwind bound and does not finish; the header parse on arbitrary bytes is covered by `array_h*_k0` and
/// `array_count_*`.)
pub fn array_elems<const K: usize>(count: usize) {
    let xs: [u8; K] = kani::any();
    let mut v: Vec<u8> = Vec::with_capacity(4 * K + 8);
    v.push(b'*');
    v.push(b'0' + count as u8);
    v.push(b'\r');
    v.push(b'\n');
    let mut i = 0;
    while i < K {
        kani::assume(xs[i] != b'\r');
        v.push(b'+');
        v.push(xs[i]);
        v.push(b'\r');
        v.push(b'\n');
        i += 1;
    }
    let n = v.len();
    set_layout(&[2, 2, 2, 2, 2, 2, 2, 2]);
    let mut buf = BytesMut::from(&v[..]);
    let r = RespValue::decode(&mut buf);
    let c = classify(&r);
    if count <= K {
        match &r {
            Ok(Some(RespValue::Array(items))) => {
                assert!(items.len() == count, "C20 array has the declared number of elements");
                assert!(buf.len() == n - 4 - 4 * count, "C20 array consumes its header and exactly its elements");
                assert!(items.capacity() <= 2 * n + 4, "C21 array storage larger than a small multiple of the bytes received");
                let mut i = 0;
                while i < count {
                    assert!(matches!(&items[i], RespValue::SimpleString(s) if s.len() == 1 && s.as_bytes()[0] == xs[i]) || xs[i] >= 128,
                            "C20 array element differs from what was sent");
                    i += 1;
                }
            }
            Ok(Some(_)) => assert!(false, "C20 array frame decoded to a value of another type"),
            Ok(None) | Err(RespError::Incomplete) => assert!(false, "C20 a complete array was answered with 'need more data'"),
            Err(_) => {} // a non-UTF-8 element is a protocol error
        }
    } else {
        assert!(c == 1 || c == 2, "C21 array with missing elements must not produce a value");
        if c == 1 {
            assert!(buf.len() == n, "C20 decoder consumed bytes although it asked for more data");
        }
    }
    assert!(max_alloc() <= 64 + 40 * n, "C21 allocation larger than a small multiple of the bytes received");
    vk_cover!(c == 0, "reach value");
    vk_cover!(c == 1 || count <= K, "reach need-more");
    std::mem::forget((r, buf, v));
}

/// The same with the shortest possible elements, `_ CRLF` (3 bytes): count <= K must decode to `count` nulls.
pub fn array_nulls<const K: usize>(count: usize, with_trailing: bool) {
    let mut v: Vec<u8> = Vec::with_capacity(3 * K + 8);
    v.push(b'*');
    v.push(b'0' + count as u8);
    v.push(b'\r');
    v.push(b'\n');
    let mut i = 0;
    while i < K {
        v.push(b'_');
        v.push(b'\r');
        v.push(b'\n');
        i += 1;
    }
    // one (symbolic) byte of a following frame may have arrived; whether it has is part of the shape
    // (a symbolic buffer length is the copy pattern CBMC does not carry)
    if with_trailing {
        let trailing: u8 = kani::any();
        v.push(trailing);
    }
    let n = v.len();
    set_layout(&[2, 1, 1, 1, 1, 1, 1, 1]);
    let mut buf = BytesMut::from(&v[..]);
    let r = RespValue::decode(&mut buf);
    if count <= K {
        match &r {
            Ok(Some(RespValue::Array(items))) => {
                assert!(items.len() == count, "C20 array has the declared number of elements");
                assert!(buf.len() == n - 4 - 3 * count, "C20 array consumes its header and exactly its elements");
            }
            _ => assert!(false, "C20 a complete array of nulls was not decoded"),
        }
    } else {
        assert!(classify(&r) == 1 && buf.len() == n, "C20 an array with missing elements must wait without consuming");
    }
    vk_cover!(true, "reach");
    std::mem::forget((r, buf, v));
}

/// A declared element count of up to D decimal digits with nothing after the header: the decoder must
/// answer (need more data / error) without reserving storage for the declared count.
pub fn array_huge_count<const D: usize>() {
    huge_count::<D>(b'*')
}
/// The same for a bulk-string header (`$` + up to D digits, optionally signed by the first symbolic byte).
pub fn bulk_huge_count<const D: usize>() {
    huge_count::<D>(b'$')
}
fn huge_count<const D: usize>(ty: u8) {
    let digits: [u8; D] = kani::any();
    let mut v: Vec<u8> = Vec::with_capacity(D + 3);
    v.push(ty);
    let mut i = 0;
    while i < D {
        kani::assume((digits[i] >= b'0' && digits[i] <= b'9') || (i == 0 && (digits[i] == b'-' || digits[i] == b'+')));
        v.push(digits[i]);
        i += 1;
    }
    v.push(b'\r');
    v.push(b'\n');
    let n = v.len();
    set_layout(&[D + 1]);
    let mut buf = BytesMut::from(&v[..]);
    let r = RespValue::decode(&mut buf);
    let c = classify(&r);
    if c == 1 {
        assert!(buf.len() == n, "C20 decoder consumed bytes although it asked for more data");
    }
    assert!(max_alloc() <= 64 + 40 * n, "C21 allocation larger than a small multiple of the bytes received");
    vk_cover!(c == 1 || c == 2, "reach");
    std::mem::forget((r, buf, v));
}

/// Declared counts around the integer boundaries: a concrete digit prefix (e.g. the first 17 digits of 2^63)
/// followed by S symbolic digits, optional sign symbolic.  All-symbolic 19/20-digit counts are in the thorough
/// tier (the 20-step symbolic multiply-add chain does not finish in the quick budget).
pub fn count_boundary<const S: usize>(ty: u8, prefix: &[u8]) {
    let tail: [u8; S] = kani::any();
    let sign: u8 = kani::any();
    kani::assume(sign == b'-' || sign == b'+' || sign == b'0');
    let mut v: Vec<u8> = Vec::with_capacity(prefix.len() + S + 4);
    v.push(ty);
    v.push(sign);
    let mut i = 0;
    while i < prefix.len() {
        v.push(prefix[i]);
        i += 1;
    }
    let mut i = 0;
    while i < S {
        kani::assume(tail[i] >= b'0' && tail[i] <= b'9');
        v.push(tail[i]);
        i += 1;
    }
    v.push(b'\r');
    v.push(b'\n');
    let n = v.len();
    set_layout(&[n - 3]);
    let mut buf = BytesMut::from(&v[..]);
    let r = RespValue::decode(&mut buf);
    let c = classify(&r);
    if c == 1 {
        assert!(buf.len() == n, "C20 decoder consumed bytes although it asked for more data");
    }
    // a declared length that does not fit the machine word is malformed, never a (wrapped) smaller length
    assert!(c != 0 || ty == b'*', "C21 an out-of-range bulk length was accepted as a value");
    assert!(max_alloc() <= 64 + 40 * n, "C21 allocation larger than a small multiple of the bytes received");
    vk_cover!(c == 2, "reach error");
    vk_cover!(c == 1 || c == 2, "reach");
    std::mem::forget((r, buf, v));
}

/// Nesting limit.  The decoder declares RespValue::MAX_DEPTH; unbounded recursion on a deep frame is a
/// process abort (CBMC has no stack model, so the limit is what is checked):
///  * entering an array at depth MAX_DEPTH is refused;
///  * the depth is really propagated: at depth MAX_DEPTH-1 a single array is accepted, an array inside it
///    is refused;
///  * the limit is a stack-safe constant.
pub fn nesting_limit() {
    assert!(RespValue::MAX_DEPTH >= 1 && RespValue::MAX_DEPTH <= 128, "C21 declared nesting limit is not stack-safe");
    let one: &[u8] = b"*1\r\n_\r\n";
    let two: &[u8] = b"*1\r\n*1\r\n_\r\n";
    let mut c = one;
    let r = RespValue::decode_frame(&mut c, RespValue::MAX_DEPTH);
    assert!(matches!(&r, Err(e) if !matches!(e, RespError::Incomplete)), "C21 an array at the nesting limit is not refused");
    let mut c = one;
    let r1 = RespValue::decode_frame(&mut c, RespValue::MAX_DEPTH - 1);
    assert!(matches!(&r1, Ok(Some(RespValue::Array(_)))), "C20 nesting within the declared limit is decoded");
    let mut c = two;
    let r2 = RespValue::decode_frame(&mut c, RespValue::MAX_DEPTH - 1);
    assert!(matches!(&r2, Err(e) if !matches!(e, RespError::Incomplete)), "C21 nesting depth is not propagated to inner arrays");
    vk_cover!(true, "reach");
    std::mem::forget((r, r1, r2));
}

// ---------------------------------------------------------------------------------------------------
// C22 kernel: whatever text a reply carries, its encoding is exactly one frame.
// Compositional with the families above: `line`/`readline` show that a line frame ends at the FIRST CRLF
// of the buffer; so the encoder must produce a buffer whose first CRLF is its last two bytes.
// ---------------------------------------------------------------------------------------------------
fn ascii_string<const L: usize>() -> String {
    let b: [u8; L] = kani::any();
    let mut s = String::with_capacity(L);
    let mut i = 0;
    while i < L {
        kani::assume(b[i] < 128); // all ASCII incl. CR and LF
        s.push(b[i] as char);
        i += 1;
    }
    s
}

/// SimpleString (err=false) / Error (err=true) with L arbitrary ASCII characters, CR and LF included.
pub fn reply_line<const L: usize>(err: bool) {
    let text = ascii_string::<L>();
    let v = if err { RespValue::Error(text) } else { RespValue::SimpleString(text) };
    let mut out: Vec<u8> = Vec::with_capacity(L + 8);
    let r = v.encode(&mut out);
    assert!(r.is_ok(), "C22 encode failed");
    assert!(out.len() >= 3, "C22 reply shorter than a frame");
    assert!(out[0] == if err { b'-' } else { b'+' }, "C22 reply type byte");
    assert!(first_crlf(&out) == Some(out.len() - 2), "C22 a reply line contains a CRLF before its end: it decodes as more than one frame");
    vk_cover!(true, "reach");
    std::mem::forget((v, out, r));
}

/// The payload-free replies have one fixed encoding each.
pub fn reply_fixed() {
    let mut out: Vec<u8> = Vec::with_capacity(8);
    assert!(RespValue::Null.encode(&mut out).is_ok() && &out[..] == b"_\r\n", "C22 encoding of Null");
    let mut out2: Vec<u8> = Vec::with_capacity(8);
    assert!(RespValue::BulkString(None).encode(&mut out2).is_ok() && &out2[..] == b"$-1\r\n", "C22 encoding of the null bulk string");
    let mut out3: Vec<u8> = Vec::with_capacity(8);
    assert!(RespValue::Array(Vec::new()).encode(&mut out3).is_ok() && &out3[..] == b"*0\r\n", "C22 encoding of the empty array");
    vk_cover!(true, "reach");
    std::mem::forget((out, out2, out3));
}

/// Bulk string reply with L arbitrary bytes: exact wire layout  $<L> CRLF <bytes> CRLF.
pub fn reply_bulk<const L: usize>() {
    let d: [u8; L] = kani::any();
    let v = RespValue::BulkString(Some(d.to_vec()));
    let mut out: Vec<u8> = Vec::with_capacity(L + 8);
    let r = v.encode(&mut out);
    assert!(r.is_ok(), "C22 encode failed");
    assert!(out.len() == L + 6, "C22 bulk reply length");
    assert!(out[0] == b'$' && out[1] == b'0' + L as u8 && out[2] == b'\r' && out[3] == b'\n', "C22 bulk header");
    let mut i = 0;
    while i < L {
        assert!(out[4 + i] == d[i], "C22 bulk payload");
        i += 1;
    }
    assert!(out[L + 4] == b'\r' && out[L + 5] == b'\n', "C22 bulk trailer");
    vk_cover!(true, "reach");
    std::mem::forget((v, out, r));
}

/// Integer reply: `:` optional `-` digits CRLF, nothing else.
pub fn reply_integer() {
    let i: i64 = kani::any();
    kani::assume(i > -100000 && i < 100000); // keeps the digit loop of core::fmt small (stated bound)
    let v = RespValue::Integer(i);
    let mut out: Vec<u8> = Vec::with_capacity(16);
    let r = v.encode(&mut out);
    assert!(r.is_ok(), "C22 encode failed");
    let n = out.len();
    assert!(n >= 4 && n <= 9 && out[0] == b':', "C22 integer reply shape");
    assert!(out[n - 2] == b'\r' && out[n - 1] == b'\n', "C22 integer reply trailer");
    let mut k = 1;
    while k < n - 2 {
        let c = out[k];
        assert!((c >= b'0' && c <= b'9') || (k == 1 && c == b'-'), "C22 integer reply holds a non-digit");
        k += 1;
    }
    vk_cover!(i < 0, "reach negative");
    std::mem::forget((v, out, r));
}

/// Array reply [Error(a), SimpleString(b), Null, BulkString(None)]: header + each element exactly one frame.
pub fn reply_array<const L: usize>() {
    let a = ascii_string::<L>();
    let b = ascii_string::<L>();
    let v = RespValue::Array(vec![RespValue::Error(a), RespValue::SimpleString(b), RespValue::Null, RespValue::BulkString(None)]);
    let mut out: Vec<u8> = Vec::with_capacity(2 * L + 24);
    let r = v.encode(&mut out);
    assert!(r.is_ok(), "C22 encode failed");
    // *4 CRLF | -a CRLF | +b CRLF | _ CRLF | $-1 CRLF
    assert!(out.len() == 4 + (L + 3) + (L + 3) + 3 + 5, "C22 array reply length");
    assert!(&out[..4] == b"*4\r\n", "C22 array header");
    let e1 = &out[4..4 + L + 3];
    let e2 = &out[4 + L + 3..4 + 2 * (L + 3)];
    assert!(e1[0] == b'-' && first_crlf(e1) == Some(L + 1), "C22 array element 1 is not one frame");
    assert!(e2[0] == b'+' && first_crlf(e2) == Some(L + 1), "C22 array element 2 is not one frame");
    assert!(&out[4 + 2 * (L + 3)..] == b"_\r\n$-1\r\n", "C22 array tail");
    vk_cover!(true, "reach");
    std::mem::forget((v, out, r));
}

// ---------------------------------------------------------------------------------------------------
// C20: the connection loop's decision skeleton around the real decode (src/protocol/server.rs:
// Ok(Some) -> dispatch and continue, Ok(None) | Err(Incomplete) -> wait for the next read,
// Err(_) -> reply with an error and wait for the next read).  `feed` is that skeleton.
// ---------------------------------------------------------------------------------------------------
pub struct Conn {
    pub buf: BytesMut,
    // decoded frames in arrival order (fixed slots, not a Vec: every Vec::push costs CBMC ~40 s)
    pub g0: Option<RespValue>,
    pub g1: Option<RespValue>,
    pub g2: Option<RespValue>,
    pub n: usize,
    pub errors: usize,
}
impl Conn {
    pub fn new() -> Self {
        Conn { buf: BytesMut::with_capacity(64), g0: None, g1: None, g2: None, n: 0, errors: 0 }
    }
    fn record(&mut self, v: RespValue) {
        match self.n {
            0 => self.g0 = Some(v),
            1 => self.g1 = Some(v),
            2 => self.g2 = Some(v),
            _ => assert!(false, "C20 more frames decoded than were sent"),
        }
        self.n += 1;
    }
    pub fn got(&self, k: usize) -> &Option<RespValue> {
        match k {
            0 => &self.g0,
            1 => &self.g1,
            _ => &self.g2,
        }
    }
    /// one decode attempt of the loop; returns false when the loop would go back to reading the socket
    pub fn attempt(&mut self, layout: &[usize]) -> bool {
        set_layout(layout);
        let before = self.buf.len();
        match RespValue::decode(&mut self.buf) {
            Ok(Some(v)) => {
                self.record(v);
                true
            }
            Ok(None) | Err(RespError::Incomplete) => {
                // the loop now waits for the next read and will call decode again on the same buffer + more
                // bytes: anything consumed here is lost from the frame
                assert!(self.buf.len() == before, "C20 decoder consumed bytes although it asked for more data");
                false
            }
            Err(_) => {
                self.errors += 1;
                false
            }
        }
    }
}

include!(concat!(env!("VK_GEN_DIR"), "/c21_gen.rs"));
