// C31 — Raft log storage keeps one entry per index and never loses the tail.
// Child module of src/raft/storage.rs (current file of /repo, in the `vslice_raft` slice crate, after the
// de-async normalisation).  One inductive step: the pre-state is an ARBITRARY log of concrete length L whose
// (index, term) pairs are symbolic 64-bit values satisfying the representation invariant the property states
// (indices strictly increasing: one entry per index), plus symbolic snapshot metadata; then ONE
// operation with symbolic arguments; the post-conditions are the statement's clauses and the invariant again.
#![allow(dead_code, unused_imports)]
include!("/verif/harness/vk_prelude.rs");

use super::*;

const MAXL: usize = 6;

#[derive(Clone, Copy)]
struct M {
    idx: [u64; MAXL],
    term: [u64; MAXL],
    len: usize,
    snap: Option<(u64, u64)>,
}

fn mk_entry(i: u64, t: u64) -> LogEntry {
    LogEntry { index: i, term: t, data: Vec::new() }
}

/// Arbitrary representation-valid pre-state of concrete length `l`.
/// cidx = false: indices symbolic (any strictly increasing 64-bit values above the snapshot index).
/// cidx = true:  indices are the concrete values 10, 20, 30 (snapshot index 5) and only terms are symbolic —
///               used for the append steps on longer logs, where a symbolic truncation point makes the
///               Vec length symbolic and CBMC runs out of memory (DESIGN.md R4).
fn pre(l: usize, with_snap: bool, cidx: bool) -> (RaftStorage, M) {
    let mut m = M { idx: [0; MAXL], term: [0; MAXL], len: l, snap: None };
    let mut lo: u64 = 0;
    if with_snap {
        let si: u64 = if cidx { 5 } else { kani::any() };
        let st: u64 = kani::any();
        m.snap = Some((si, st));
        // NOT assumed: that retained entries lie above the snapshot index.  The public API lets a caller append
        // at or below it, and the statement still fixes what must be reported then (the newest retained entry).
    }
    let mut v: Vec<LogEntry> = Vec::new();
    let mut k = 0;
    while k < l {
        let i: u64 = if cidx { 10 * (k as u64 + 1) } else { kani::any() };
        let t: u64 = kani::any();
        kani::assume(i > lo && i < u64::MAX); // get_entries' end bound is exclusive
        lo = i;
        m.idx[k] = i;
        m.term[k] = t;
        v.push(mk_entry(i, t));
        k += 1;
    }
    let s = RaftStorage {
        path: String::new(),
        state: Arc::new(RwLock::new(RaftState::default())),
        log: Arc::new(RwLock::new(v)),
        snapshot_metadata: Arc::new(RwLock::new(m.snap)),
    };
    (s, m)
}

/// Read the whole log back through the public read API and compare with the expected model:
/// exactly the entries of `e` (in order), one per index, and the matching last index/term.
fn check_view(s: &RaftStorage, e: &M, bound: usize) {
    // strictly increasing indices = at most one entry per index
    let all = s.get_entries(0, u64::MAX);
    assert!(all.len() == e.len, "C31 number of retained entries");
    let mut k = 0;
    while k < bound {
        if k < e.len {
            assert!(k < all.len() && all[k].index == e.idx[k] && all[k].term == e.term[k], "C31 retained entry differs");
            let g = s.get_entry(e.idx[k]);
            assert!(matches!(&g, Some(x) if x.term == e.term[k]), "C31 get_entry returns the entry at that index");
            std::mem::forget(g);
        }
        k += 1;
    }
    let last = s.get_last_log_index_term();
    let want = if e.len > 0 {
        (e.idx[e.len - 1], e.term[e.len - 1])
    } else {
        match e.snap {
            Some(p) => p,
            None => (0, 0),
        }
    };
    assert!(last == want, "C31 last index/term = newest retained entry, else snapshot");
    assert!(s.get_snapshot_metadata() == e.snap, "C31 snapshot metadata");
    std::mem::forget(all);
}

/// append of `nb` consecutive entries starting at a symbolic index.
/// cfirst = 0: symbolic first index (and symbolic log indices); otherwise the concrete first index of
/// the batch against the concrete log 10, 20, 30 (position class of the append is then part of the shape).
pub fn step_append(l: usize, with_snap: bool, nb: usize, cfirst: u64) {
    let (s, m) = pre(l, with_snap, cfirst != 0);
    let first: u64 = if cfirst != 0 { cfirst } else { kani::any() };
    kani::assume(first > 0 && first < u64::MAX - 4);
    let mut batch: Vec<LogEntry> = Vec::new();
    let mut e = M { idx: [0; MAXL], term: [0; MAXL], len: 0, snap: m.snap };
    // expected: old entries below `first`, then the batch
    let mut k = 0;
    while k < l {
        if m.idx[k] < first {
            e.idx[e.len] = m.idx[k];
            e.term[e.len] = m.term[k];
            e.len += 1;
        }
        k += 1;
    }
    let mut j = 0;
    while j < nb {
        let t: u64 = kani::any();
        batch.push(mk_entry(first + j as u64, t));
        e.idx[e.len] = first + j as u64;
        e.term[e.len] = t;
        e.len += 1;
        j += 1;
    }
    let r = s.append_entries(batch);
    assert!(r.is_ok(), "C31 append refused");
    check_view(&s, &e, l + nb);
    vk_cover!(l > 0 && first <= m.idx[l - 1], "reach conflicting append");
    vk_cover!(true, "reach");
    std::mem::forget((s, r));
}

/// snapshot at a symbolic (index, term).
pub fn step_snapshot(l: usize, with_snap: bool) {
    let (s, m) = pre(l, with_snap, false);
    let si: u64 = kani::any();
    let st: u64 = kani::any();
    if let Some((old, _)) = m.snap {
        kani::assume(si >= old);
    }
    kani::assume(si < u64::MAX);
    let mut e = M { idx: [0; MAXL], term: [0; MAXL], len: 0, snap: Some((si, st)) };
    let mut k = 0;
    while k < l {
        if m.idx[k] > si {
            e.idx[e.len] = m.idx[k];
            e.term[e.len] = m.term[k];
            e.len += 1;
        }
        k += 1;
    }
    let r = s.create_snapshot(si, st, Vec::new());
    assert!(r.is_ok(), "C31 snapshot refused");
    check_view(&s, &e, l);
    vk_cover!(e.len > 0 && e.len < l, "reach snapshot in the middle");
    vk_cover!(true, "reach");
    std::mem::forget((s, r));
}

/// truncation from a symbolic index.
pub fn step_delete_from(l: usize, with_snap: bool) {
    let (s, m) = pre(l, with_snap, false);
    let from: u64 = kani::any();
    let mut e = M { idx: [0; MAXL], term: [0; MAXL], len: 0, snap: m.snap };
    let mut k = 0;
    while k < l {
        if m.idx[k] < from {
            e.idx[e.len] = m.idx[k];
            e.term[e.len] = m.term[k];
            e.len += 1;
        }
        k += 1;
    }
    let r = s.delete_entries_from(from);
    assert!(r.is_ok(), "C31 truncation refused");
    check_view(&s, &e, l);
    vk_cover!(true, "reach");
    std::mem::forget((s, r));
}

/// reads on an unchanged log: range reads return exactly the entries in [start, end) in order.
pub fn step_read(l: usize, with_snap: bool) {
    let (s, m) = pre(l, with_snap, false);
    check_view(&s, &m, l);
    let a: u64 = kani::any();
    let b: u64 = kani::any();
    let got = s.get_entries(a, b);
    let mut want = 0;
    let mut k = 0;
    while k < l {
        if m.idx[k] >= a && m.idx[k] < b {
            assert!(want < got.len() && got[want].index == m.idx[k] && got[want].term == m.term[k], "C31 range read");
            want += 1;
        }
        k += 1;
    }
    assert!(got.len() == want, "C31 range read returns nothing else");
    let q: u64 = kani::any();
    let g = s.get_entry(q);
    let mut present = false;
    let mut k = 0;
    while k < l {
        if m.idx[k] == q {
            present = true;
        }
        k += 1;
    }
    assert!(g.is_some() == present, "C31 get_entry finds exactly the stored indices");
    vk_cover!(true, "reach");
    std::mem::forget((s, got, g));
}

include!(concat!(env!("VK_GEN_DIR"), "/c31_gen.rs"));
