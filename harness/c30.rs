// C30 — the column store behaves as a map under every update sequence.
// Child module of src/graph/storage/columnar.rs (current file, `vslice_col` slice crate with the real
// property.rs / types.rs, FxHashMap redirected to the vkcoll map model, PROMOTE_MIN_ENTRIES lowered to 4 in
// the scratch copy so that the Sparse->Dense promotion is reachable inside the bound).
//
// Method: not histories.  The pre-state is an ARBITRARY representation-valid column; one operation with a
// symbolic value is applied; for a symbolic probe row the map law is asserted, and the representation
// invariant is asserted again (so it is inductive, not assumed).
#![allow(dead_code, unused_imports)]
include!("/verif/harness/vk_prelude.rs");

use super::*;

/// Representation invariant of a Dense column (what the code maintains and `get` relies on).
fn dense_inv<T: Clone + Default + PartialEq>(c: &ColumnData<T>) -> bool {
    match c {
        ColumnData::Sparse(_) => true,
        ColumnData::Dense { base, values, present, count } => {
            if present.len() != values.len().div_ceil(64) {
                return false;
            }
            let mut n = 0;
            let mut s = 0;
            while s < values.len() {
                if bit(present, s) {
                    n += 1;
                } else if values[s] != T::default() {
                    return false;
                }
                s += 1;
            }
            // no presence bit beyond the value array: a stale bit there becomes a phantom value the next
            // time the array grows over it.  (present.len() == ceil(len/64) was checked above, so only the
            // last word can carry such bits; shift instead of a 64-step loop.)
            let r = values.len() % 64;
            if r != 0 {
                if let Some(last) = present.last() {
                    if (*last >> r) != 0 {
                        return false;
                    }
                }
            }
            let _ = base;
            n == *count
        }
    }
}

/// Arbitrary valid Dense i64 column: concrete base and span (the shape), symbolic presence and values.
fn pre_dense(base: usize, span: usize) -> (ColumnData<i64>, [Option<i64>; 8]) {
    let mut model: [Option<i64>; 8] = [None; 8]; // model[slot]
    let mut values: Vec<i64> = Vec::with_capacity(span);
    let mut word: u64 = 0;
    let mut count = 0;
    let mut s = 0;
    while s < span {
        let p: bool = kani::any();
        let v: i64 = kani::any();
        if p {
            values.push(v);
            word |= 1u64 << s;
            count += 1;
            model[s] = Some(v);
        } else {
            values.push(0);
        }
        s += 1;
    }
    let present = if span == 0 { Vec::new() } else { vec![word] };
    (ColumnData::Dense { base, values, present, count }, model)
}

fn model_get(model: &[Option<i64>; 8], base: usize, span: usize, j: usize) -> Option<i64> {
    if j >= base && j - base < span {
        model[j - base]
    } else {
        None
    }
}

/// One `set(idx, v)` on a dense column; idx is concrete (its position class is part of the shape: a symbolic
/// idx makes resize / rebase / demotion symbolic-sized), v and the probe row are symbolic.
pub fn dense_set(base: usize, span: usize, idx: usize) {
    let (mut c, model) = pre_dense(base, span);
    kani::assume(c.len() > 0); // a dense column always holds at least one entry
    let before_len = c.len();
    let v: i64 = kani::any();
    let j: usize = kani::any();
    let had = model_get(&model, base, span, idx).is_some();
    c.set(idx, v);
    assert!(c.get(idx) == Some(&v), "C30 a row reads back the last value set");
    if j != idx {
        let want = model_get(&model, base, span, j);
        assert!(c.get(j).copied() == want, "C30 set changed another row");
    }
    assert!(c.len() == before_len + (if had { 0 } else { 1 }), "C30 len after set");
    assert!(c.has(idx), "C30 has after set");
    assert!(dense_inv(&c), "C30 dense representation invariant after set");
    vk_cover!(matches!(c, ColumnData::Dense { .. }), "reach stays dense");
    vk_cover!(true, "reach");
    std::mem::forget(c);
}

pub fn dense_remove(base: usize, span: usize, idx: usize) {
    let (mut c, model) = pre_dense(base, span);
    let before_len = c.len();
    let j: usize = kani::any();
    let had = model_get(&model, base, span, idx).is_some();
    c.remove(idx);
    assert!(c.get(idx).is_none(), "C30 a removed row reads null");
    assert!(!c.has(idx), "C30 has after remove");
    if j != idx {
        let want = model_get(&model, base, span, j);
        assert!(c.get(j).copied() == want, "C30 remove changed another row");
    }
    assert!(c.len() == before_len - (if had { 1 } else { 0 }), "C30 len after remove");
    assert!(dense_inv(&c), "C30 dense representation invariant after remove");
    vk_cover!(had || !(idx >= base && idx - base < span), "reach removed something (or the row is outside the span)");
    std::mem::forget(c);
}

/// Sparse column with K concrete distinct rows (symbolic values); set at a concrete row class; K+1 == 4
/// triggers maybe_promote (threshold lowered to 4 in the scratch copy).
pub fn sparse_set(rows: &[usize], idx: usize) {
    let mut c: ColumnData<i64> = ColumnData::new();
    let mut vals: [i64; 4] = [0; 4];
    let mut k = 0;
    while k < rows.len() {
        vals[k] = kani::any();
        if let ColumnData::Sparse(m) = &mut c {
            m.insert(rows[k], vals[k]);
        }
        k += 1;
    }
    let v: i64 = kani::any();
    let j: usize = kani::any();
    c.set(idx, v);
    assert!(c.get(idx) == Some(&v), "C30 a row reads back the last value set");
    let mut want: Option<i64> = None;
    let mut distinct = 1;
    let mut k = 0;
    while k < rows.len() {
        if rows[k] == j {
            want = Some(vals[k]);
        }
        if rows[k] != idx {
            distinct += 1;
        }
        k += 1;
    }
    if j != idx {
        assert!(c.get(j).copied() == want, "C30 set changed another row");
    }
    assert!(c.len() == distinct, "C30 len after set");
    assert!(dense_inv(&c), "C30 dense representation invariant after promotion");
    vk_cover!(matches!(c, ColumnData::Dense { .. }), "reach promoted");
    vk_cover!(true, "reach");
    std::mem::forget(c);
}

/// for_each (what the typed->Other spill walks) visits exactly the present rows, each once, with its value.
pub fn dense_for_each(base: usize, span: usize) {
    let (c, model) = pre_dense(base, span);
    let mut seen: [u8; 8] = [0; 8];
    let mut bad = false;
    c.for_each(|idx, v| {
        if idx >= base && idx - base < span {
            let s = idx - base;
            seen[s] += 1;
            if model[s] != Some(*v) {
                bad = true;
            }
        } else {
            bad = true;
        }
    });
    assert!(!bad, "C30 for_each visited a row that holds no value, or with another value");
    let mut s = 0;
    while s < span {
        assert!(seen[s] == (model[s].is_some() as u8), "C30 for_each must visit exactly the present rows, once");
        s += 1;
    }
    vk_cover!(true, "reach");
    std::mem::forget(c);
}

/// Growth across bitmap words: a fully packed dense column of 64 rows, one write `gap` rows past its end
/// (still dense by the break-even rule).  The written row must read back and the rows in between must not.
pub fn dense_grow_words(gap: usize) {
    let v0: i64 = kani::any();
    let mut c: ColumnData<i64> = ColumnData::Dense { base: 0, values: vec![v0; 64], present: vec![u64::MAX], count: 64 };
    let v: i64 = kani::any();
    let idx = 63 + gap;
    c.set(idx, v);
    assert!(c.get(idx) == Some(&v), "C30 a row reads back the last value set");
    assert!(c.len() == 65, "C30 len after set");
    let j: usize = kani::any();
    kani::assume(j < idx + 70);
    if j < 64 {
        assert!(c.get(j) == Some(&v0), "C30 set changed another row");
    } else if j != idx {
        assert!(c.get(j).is_none(), "C30 set invented a row");
    }
    vk_cover!(matches!(c, ColumnData::Dense { .. }), "reach stays dense");
    std::mem::forget(c);
}

/// Rebase across bitmap words: 128 packed rows at base 64 with one hole in the second word; a write at row 0
/// (64 rows below the base: the bitmap shifts by exactly one word).  The hole must stay a hole, the written row
/// must read back, every other row keeps its value.
pub fn dense_rebase_words() {
    let v0: i64 = kani::any();
    let mut vals = vec![v0; 128];
    vals[69] = 0;
    let mut c: ColumnData<i64> = ColumnData::Dense { base: 64, values: vals, present: vec![u64::MAX, u64::MAX & !(1u64 << 5)], count: 127 };
    let v: i64 = kani::any();
    c.set(0, v);
    assert!(c.get(0) == Some(&v), "C30 a row reads back the last value set");
    assert!(c.get(64 + 69).is_none(), "C30 a removed row came back after a rebase");
    assert!(c.len() == 128, "C30 len after set");
    let j: usize = kani::any();
    kani::assume(j < 260);
    if j >= 64 && j < 192 && j != 64 + 69 {
        assert!(c.get(j) == Some(&v0), "C30 set changed another row");
    } else if j != 0 {
        assert!(c.get(j).is_none(), "C30 set invented a row");
    }
    vk_cover!(matches!(c, ColumnData::Dense { .. }), "reach stays dense");
    std::mem::forget(c);
}

/// dense_is_smaller over all 64-bit arguments: no overflow/panic (Kani's checks), never true for an empty
/// column, and never true when the span is so large that the dense array could not be smaller
/// ("one far-away row must not allocate the universe").
pub fn dense_rule() {
    let span: usize = kani::any();
    let entries: usize = kani::any();
    let elem: usize = kani::any();
    kani::assume(elem <= 64);
    let r = dense_is_smaller(span, entries, elem);
    if span == 0 || entries == 0 {
        assert!(!r, "C30 dense_is_smaller true for an empty column");
    }
    if r {
        // dense costs at least one presence bit per slot; sparse at most 8*(8+elem+1)*8/7 bits per entry
        assert!(span / 1024 <= entries, "C30 dense chosen for a span out of all proportion to the entries");
    }
    vk_cover!(r, "reach dense");
    vk_cover!(!r && span > 0 && entries > 0, "reach sparse");
}

/// Column level: a value the typed column cannot hold spills the whole column to Other without losing rows.
pub fn column_spill(base: usize, span: usize, idx: usize, as_float: bool) {
    let (c, model) = pre_dense(base, span);
    kani::assume(c.len() > 0);
    let mut col = Column::Int(c);
    let j: usize = kani::any();
    let newv = if as_float { PropertyValue::Float(kani::any()) } else { PropertyValue::Boolean(kani::any()) };
    let keep = newv.clone();
    col.set(idx, newv);
    let got = col.get(idx);
    match (&got, &keep) {
        (PropertyValue::Float(a), PropertyValue::Float(b)) => assert!(a.to_bits() == b.to_bits(), "C30 spilled value reads back"),
        (PropertyValue::Boolean(a), PropertyValue::Boolean(b)) => assert!(a == b, "C30 spilled value reads back"),
        _ => assert!(false, "C30 a value of another type was dropped or altered"),
    }
    if j != idx {
        match (col.get(j), model_get(&model, base, span, j)) {
            (PropertyValue::Integer(a), Some(b)) => assert!(a == b, "C30 type spill altered another row"),
            (PropertyValue::Null, None) => {}
            _ => assert!(false, "C30 type spill lost or invented a row"),
        }
        assert!(col.has(j) == model_get(&model, base, span, j).is_some(), "C30 has after spill");
    }
    vk_cover!(true, "reach");
    std::mem::forget((col, got, keep));
}

/// ColumnStore level: two keys, two rows, then one operation; reads and key listings must agree with the map
/// model (op: 0 remove_property(1,"a")  1 clear_row(1)  2 overwrite (1,"a")  3 new key "c" on row 1 with a
/// Boolean  4 remove_property of a key that was never set).
pub fn store_step(op: u8) {
    let mut st = ColumnStore::new();
    let (va, vb, wa): (i64, i64, i64) = (kani::any(), kani::any(), kani::any());
    st.set_property(1, "a", PropertyValue::Integer(va));
    st.set_property(1, "b", PropertyValue::Integer(vb));
    st.set_property(2, "a", PropertyValue::Integer(wa));
    let mut a1 = Some(va);
    let mut b1 = Some(vb);
    let mut c1: Option<bool> = None;
    match op {
        0 => {
            st.remove_property(1, "a");
            a1 = None;
        }
        1 => {
            st.clear_row(1);
            a1 = None;
            b1 = None;
        }
        2 => {
            let n: i64 = kani::any();
            st.set_property(1, "a", PropertyValue::Integer(n));
            a1 = Some(n);
        }
        3 => {
            let n: bool = kani::any();
            st.set_property(1, "c", PropertyValue::Boolean(n));
            c1 = Some(n);
        }
        _ => st.remove_property(1, "zz"),
    }
    let ok = |got: PropertyValue, want: Option<i64>| match (got, want) {
        (PropertyValue::Integer(x), Some(y)) => x == y,
        (PropertyValue::Null, None) => true,
        _ => false,
    };
    assert!(ok(st.get_property(1, "a"), a1), "C30 store: row 1 key a");
    assert!(ok(st.get_property(1, "b"), b1), "C30 store: row 1 key b");
    assert!(ok(st.get_property(2, "a"), Some(wa)), "C30 store: another row was changed");
    assert!(ok(st.get_property(2, "b"), None), "C30 store: a value appeared on another row");
    match (st.get_property(1, "c"), c1) {
        (PropertyValue::Boolean(x), Some(y)) => assert!(x == y, "C30 store: row 1 key c"),
        (PropertyValue::Null, None) => {}
        _ => assert!(false, "C30 store: row 1 key c"),
    }
    let k1 = st.get_property_keys(1);
    let want1 = a1.is_some() as usize + b1.is_some() as usize + c1.is_some() as usize;
    assert!(k1.len() == want1, "C30 store: keys of row 1 are exactly the keys that hold a value");
    let has = |ks: &Vec<String>, k: &str| {
        let mut f = false;
        let mut i = 0;
        while i < ks.len() {
            if ks[i] == k {
                f = true;
            }
            i += 1;
        }
        f
    };
    assert!(has(&k1, "a") == a1.is_some() && has(&k1, "b") == b1.is_some() && has(&k1, "c") == c1.is_some(), "C30 store: key listing of row 1");
    let k2 = st.get_property_keys(2);
    assert!(k2.len() == 1 && has(&k2, "a"), "C30 store: key listing of another row");
    vk_cover!(true, "reach");
    std::mem::forget((st, k1, k2));
}

include!(concat!(env!("VK_GEN_DIR"), "/c30_gen.rs"));
