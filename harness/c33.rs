// C33 — cluster health claims quorum only with a majority of distinct voters.
// Child module of src/raft/cluster.rs (current file of /repo, compiled in the `vslice_raft` slice crate
// against the tokio/tracing/chrono/vkcoll shims, after the de-async normalisation of lib/vk/slices.py).
// Concrete per harness (the shape): the sequence of node ids (a restricted-growth string: every pattern of
// repeats up to renaming), the voter flag of each addition, the construction path, the removed id.
// Symbolic: the arguments of two mark_active calls, one mark_inactive call and one update_node_role(.., Leader)
// call, each ranging over ids 0..=3 (0 is never a member, so "active non-member" and "no leader" are included).
#![allow(dead_code, unused_imports)]
include!("/verif/harness/vk_prelude.rs");

use super::*;

const MAXN: usize = 5;

/// Reference model kept by the harness, never by the code under test.
struct Model {
    ids: [u64; MAXN],
    voter: [bool; MAXN],
    present: [bool; MAXN], // entry i still in the configuration
    n: usize,
    active: [bool; 4], // by id 1..=3
    leader: [bool; 4],
}

/// Is `id` a voting member?  The flag of its LAST addition that is still present decides (a re-added id is
/// the same member with an updated role); shapes built from a ready-made vector use one flag per id.
fn is_voter(m: &Model, id: u64) -> bool {
    let mut v = false;
    let mut i = 0;
    while i < m.n {
        if m.present[i] && m.ids[i] == id {
            v = m.voter[i];
        }
        i += 1;
    }
    v
}
/// is `id` currently in the configuration (model side)?
fn member_at(m: &Model, id: u64) -> bool {
    let mut v = false;
    let mut i = 0;
    while i < m.n {
        if m.present[i] && m.ids[i] == id {
            v = true;
        }
        i += 1;
    }
    v
}
fn distinct_voters(m: &Model) -> (usize, usize) {
    // (number of distinct ids that have a voting entry, how many of those are active)
    let (v1, v2, v3) = (is_voter(m, 1), is_voter(m, 2), is_voter(m, 3));
    let total = v1 as usize + v2 as usize + v3 as usize;
    let act = (v1 && m.active[1]) as usize + (v2 && m.active[2]) as usize + (v3 && m.active[3]) as usize;
    (total, act)
}

/// ids: concrete sequence of node ids (values 1..=3), n = its length.
/// vmask: concrete voter flag per ADDITION (bit i = i-th entry).  A later addition of the same id changes
///      that member's class (voter <-> learner).  (Symbolic flags make `voters()` return a Vec of
///      symbolic length, which CBMC does not get through — DESIGN.md R4.)
/// via: 0 = ClusterConfig::add_node for every entry, then ClusterManager::new
///      1 = first entry in the initial config, the rest through ClusterManager::add_node
///      2 = configuration handed over ready-made (pub field `nodes`), through ClusterManager::new
///      3 = like 1, and before the later members join, one symbolic id is marked active and one inactive
///          (heartbeats from nodes that are not members yet)
/// rm:  0 = no removal, 1..=3 = remove_node(rm) after the activity marks
/// Symbolic: which ids are marked active, which are marked inactive afterwards, which id (if any)
/// is told it is leader.
pub fn health(ids: &[u64], vmask: u8, via: u8, rm: u8) {
    let n = ids.len();
    let mut m = Model { ids: [0; MAXN], voter: [false; MAXN], present: [false; MAXN], n, active: [false; 4], leader: [false; 4] };
    let mut i = 0;
    while i < n {
        m.ids[i] = ids[i];
        m.voter[i] = (vmask >> i) & 1 != 0;
        m.present[i] = true;
        i += 1;
    }
    let mut cfg = ClusterConfig::new(String::new(), 1);
    let first = if via == 1 || via == 3 { 1 } else { n };
    let mut i = 0;
    while i < first {
        if via == 2 {
            cfg.nodes.push(NodeConfig { id: m.ids[i], address: String::new(), voter: m.voter[i] });
        } else {
            cfg.add_node(m.ids[i], String::new(), m.voter[i]);
        }
        i += 1;
    }
    let mgr = match ClusterManager::new(cfg) {
        Ok(mgr) => mgr,
        Err(_) => return, // refused configuration: nothing is claimed about it
    };
    // symbolic *arguments*, unconditional calls: ids 0..=3 (0 is never a member)
    let a1: u64 = kani::any(); let a2: u64 = kani::any(); let d1: u64 = kani::any(); let ld: u64 = kani::any();
    let ld0: u64 = kani::any(); // a leader announced BEFORE the removal (may be the node that is then removed)
    kani::assume(a1 <= 3 && a2 <= 3 && d1 <= 3 && ld <= 3 && ld0 <= 3);
    ({
        if via == 3 {
            // activity reported BEFORE the later members join (a heartbeat from a node that is not a member yet)
            let p1: u64 = kani::any();
            let p2: u64 = kani::any();
            kani::assume(p1 <= 3 && p2 <= 3);
            mgr.mark_active(p1); m.active[p1 as usize] = true;
            mgr.mark_inactive(p2); m.active[p2 as usize] = false;
        }
        let mut i = first;
        while i < n {
            let _ = mgr.add_node(m.ids[i], String::new(), m.voter[i]);
            i += 1;
        }
        mgr.mark_active(a1); m.active[a1 as usize] = true;
        mgr.mark_active(a2); m.active[a2 as usize] = true;
        mgr.mark_inactive(d1); m.active[d1 as usize] = false;
        mgr.update_node_role(ld0, NodeRole::Leader);
        let ld0_member = member_at(&m, ld0);
        if rm >= 1 && rm <= 3 {
            let _ = mgr.remove_node(rm as u64);
            let mut i = 0;
            while i < n {
                if m.ids[i] == rm as u64 {
                    m.present[i] = false;
                }
                i += 1;
            }
            m.active[rm as usize] = false;
        }
        // a leader may be known or not
        mgr.update_node_role(ld, NodeRole::Leader);
        let hs = mgr.health_status();
        let (total, act) = distinct_voters(&m);
        if hs.healthy {
            assert!(hs.has_leader, "C33 healthy without a known leader");
            assert!(2 * act > total, "C33 healthy without a strict majority of distinct voters active");
        }
        // the report must not claim a leader nobody was told about
        // a leader is known iff some CURRENT member was told it is leader (a role left behind by a removed
        // node, or given to a non-member, is not a known leader)
        let want_leader = (ld0_member && ld0 != rm as u64) || member_at(&m, ld);
        assert!(hs.has_leader == want_leader, "C33 has_leader disagrees with the leader roles of current members");
        vk_cover!(hs.healthy, "reach healthy");
        vk_cover!(!hs.healthy, "reach unhealthy");
    });
    std::mem::forget(mgr);
}

/// The intersection argument for every size: two active sets that both reach the threshold used by
/// health_status overlap.  `thr` is the threshold expression lifted from the current source text.
pub fn intersection(thr: fn(usize) -> usize) {
    let v: usize = kani::any();
    let a: usize = kani::any();
    let b: usize = kani::any();
    kani::assume(a <= v && b <= v);
    let t = thr(v);
    if a >= t && b >= t {
        // |A ∩ B| >= a + b - v > 0, computed without overflow
        assert!(a > v - b, "C33 two healthy active sets need not intersect");
    }
    vk_cover!(a >= t && b >= t && v > 1000, "reach");
}

include!(concat!(env!("VK_GEN_DIR"), "/c33_gen.rs"));
