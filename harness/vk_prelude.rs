// Shared prelude for every harness file (textually included with `include!`).
//
// Under `cargo kani` (cfg(kani)) the real `kani` crate is in scope and nothing
// here is used.  Under native replay (cfg(not(kani))) the module `kani` below
// stands in for it: `any()` pops the solver's concrete values (parsed from
// `--concrete-playback=print`) from a thread-local queue, `assume` panics with
// a recognisable message when the replayed values do not satisfy it (= the
// replay is not faithful), `cover!` is a no-op.  Harness bodies are therefore
// compiled unchanged against the real code in both worlds.

#[cfg(not(kani))]
#[allow(dead_code)]
pub mod kani {
    use std::cell::RefCell;
    use std::collections::VecDeque;
    thread_local! {
        pub static VALS: RefCell<VecDeque<Vec<u8>>> = RefCell::new(VecDeque::new());
    }
    pub fn load(vals: Vec<Vec<u8>>) {
        VALS.with(|v| *v.borrow_mut() = vals.into_iter().collect());
    }
    pub fn remaining() -> usize {
        VALS.with(|v| v.borrow().len())
    }
    fn pop(n: usize) -> Vec<u8> {
        VALS.with(|v| {
            let b = v
                .borrow_mut()
                .pop_front()
                .unwrap_or_else(|| panic!("VK-REPLAY-UNDERFLOW"));
            if b.len() != n {
                panic!("VK-REPLAY-WIDTH expected {} got {}", n, b.len());
            }
            b
        })
    }
    pub trait Arbitrary: Sized {
        fn any() -> Self;
    }
    macro_rules! prim {
        ($($t:ty),*) => {$(
            impl Arbitrary for $t {
                fn any() -> Self {
                    let b = pop(std::mem::size_of::<$t>());
                    let mut a = [0u8; std::mem::size_of::<$t>()];
                    a.copy_from_slice(&b);
                    <$t>::from_le_bytes(a)
                }
            }
        )*};
    }
    prim!(u8, u16, u32, u64, u128, usize, i8, i16, i32, i64, i128, isize);
    impl Arbitrary for bool {
        fn any() -> Self {
            pop(1)[0] != 0
        }
    }
    impl Arbitrary for f64 {
        fn any() -> Self {
            f64::from_bits(<u64 as Arbitrary>::any())
        }
    }
    impl Arbitrary for f32 {
        fn any() -> Self {
            f32::from_bits(<u32 as Arbitrary>::any())
        }
    }
    impl<T: Arbitrary, const N: usize> Arbitrary for [T; N] {
        fn any() -> Self {
            std::array::from_fn(|_| T::any())
        }
    }
    pub fn any<T: Arbitrary>() -> T {
        T::any()
    }
    pub fn assume(c: bool) {
        if !c {
            panic!("VK-REPLAY-ASSUME-FAILED");
        }
    }
}

#[cfg(not(kani))]
#[allow(unused_macros)]
macro_rules! vk_cover {
    ($($t:tt)*) => {};
}
#[cfg(kani)]
#[allow(unused_macros)]
macro_rules! vk_cover {
    ($($t:tt)*) => { kani::cover!($($t)*) };
}

/// `vk_proof!{ [attrs] fn name() { body } }` — a Kani proof harness that is
/// also reachable by name from the native replay runner.
#[allow(unused_macros)]
macro_rules! vk_proof {
    ($(#[$m:meta])* fn $name:ident() $body:block) => {
        #[cfg(kani)]
        #[kani::proof]
        $(#[$m])*
        fn $name() $body

        #[cfg(not(kani))]
        #[allow(dead_code)]
        pub fn $name() $body
    };
}

/// R5: fixed hash seeds (stub target for std::hash::RandomState::new).
#[cfg(kani)]
#[allow(dead_code)]
pub fn vk_fixed_random_state() -> std::hash::RandomState {
    unsafe { std::mem::transmute::<(u64, u64), std::hash::RandomState>((1u64, 2u64)) }
}

/// R2: formatting is not the subject (stub target for core::fmt::write).
#[cfg(kani)]
#[allow(dead_code)]
pub fn vk_fmt_write(_out: &mut dyn core::fmt::Write, _args: core::fmt::Arguments<'_>) -> core::fmt::Result {
    Ok(())
}
/// R2: stub target for alloc::fmt::format / std::fmt::format.
#[cfg(kani)]
#[allow(dead_code)]
pub fn vk_fmt_format(_args: core::fmt::Arguments<'_>) -> String {
    String::new()
}

/// Stub target for std::fmt::format where only the END of the formatted text matters (file-name suffixes):
/// runs the real core::fmt::write into a writer that remembers just the last piece written (no copying, no
/// growing String: `String` growth inside `format!` is what CBMC does not get through) and returns that piece.
#[cfg(kani)]
#[allow(dead_code)]
pub fn vk_fmt_format_lastpiece(args: core::fmt::Arguments<'_>) -> String {
    struct Last {
        ptr: *const u8,
        len: usize,
    }
    impl core::fmt::Write for Last {
        fn write_str(&mut self, s: &str) -> core::fmt::Result {
            if !s.is_empty() {
                self.ptr = s.as_ptr();
                self.len = s.len();
            }
            Ok(())
        }
    }
    let mut w = Last { ptr: core::ptr::null(), len: 0 };
    let _ = core::fmt::write(&mut w, args);
    if w.len == 0 {
        return String::new();
    }
    let piece: &str = unsafe { core::str::from_utf8_unchecked(core::slice::from_raw_parts(w.ptr, w.len)) };
    String::from(piece)
}
