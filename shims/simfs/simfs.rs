//! simfs — environment model of the file system for the snapshot-persistence slice (DESIGN.md §3 C14).
//!
//! Contract modelled (POSIX, as relied upon by crash-consistency protocols):
//!  * a directory maps NAMES to inodes; an inode has CONTENT; both have a volatile state (what a running
//!    system sees, i.e. the page cache) and a durable state (what is guaranteed to survive power loss);
//!  * `File::sync_all` on a file makes that inode's content durable; on a directory it makes the directory's
//!    current name->inode mapping durable; nothing else makes anything durable;
//!  * `rename` is atomic; `write_all` is not (a crash during it leaves torn content);
//!  * every call is a crash point: the harness chooses the call number at which the process dies
//!    (`crash_at`), that call and every later one fail without further effect (a torn write for write_all);
//!  * after a PROCESS crash the volatile state survives; after POWER LOSS every name independently shows
//!    either its volatile or its durable inode, and an inode whose content was not synced may be garbage.
//! Names are classified by suffix (".tmp", ".committed", the directory, anything else = the snapshot file),
//! contents are abstracted to their first byte (the code never looks inside them).
#![allow(dead_code, static_mut_refs)]

pub const EMPTY: u8 = 0;
pub const GARBAGE: u8 = 255;
pub const NEVER: usize = usize::MAX;
const NNAMES: usize = 5; // 0 root, 1 dir, 2 final, 3 tmp, 4 marker
const NINODES: usize = 12;

pub struct Fs {
    pub vol: [Option<u8>; NNAMES],
    pub dur: [Option<u8>; NNAMES],
    pub content: [u8; NINODES],
    pub synced_content: [u8; NINODES], // content as of the last fsync of the inode (GARBAGE if never)
    pub ninodes: usize,
    pub ops: usize,
    pub crash_at: usize,
    pub crashed: bool,
    pub crash_now: bool, // true only during the call at which the process dies
}

pub static mut FS: Fs = Fs {
    vol: [None; NNAMES],
    dur: [None; NNAMES],
    content: [EMPTY; NINODES],
    synced_content: [GARBAGE; NINODES],
    ninodes: 0,
    ops: 0,
    crash_at: NEVER,
    crashed: false,
    crash_now: false,
};

pub fn reset() {
    unsafe {
        FS.vol = [None; NNAMES];
        FS.dur = [None; NNAMES];
        FS.content = [EMPTY; NINODES];
        FS.synced_content = [GARBAGE; NINODES];
        FS.ninodes = 0;
        FS.ops = 0;
        FS.crash_at = NEVER;
        FS.crashed = false;
    }
}
pub fn arm_crash(at_call: usize) {
    unsafe {
        FS.ops = 0;
        FS.crash_at = at_call;
        FS.crashed = false;
    }
}
pub fn calls_made() -> usize {
    unsafe { FS.ops }
}
pub fn crashed() -> bool {
    unsafe { FS.crashed }
}

/// One crash point.  Err = the process is dead from here on.
fn step() -> io::Result<()> {
    unsafe {
        if FS.crashed {
            FS.crash_now = false;
            return Err(io::Error(1));
        }
        FS.ops += 1;
        if FS.ops == FS.crash_at {
            FS.crashed = true;
            FS.crash_now = true;
            return Err(io::Error(1));
        }
    }
    Ok(())
}

fn new_inode() -> u8 {
    unsafe {
        let i = FS.ninodes;
        assert!(i < NINODES, "VK-REPLAY-SHIM simfs inode table exhausted");
        FS.ninodes += 1;
        FS.content[i] = EMPTY;
        FS.synced_content[i] = GARBAGE;
        i as u8
    }
}

/// What a restart sees.  `keep[n]`: under power loss, whether name n shows its volatile (true) or durable
/// (false) entry; `rot[i]`: whether unsynced inode i lost its content.  Both are the harness's symbolic bits.
pub fn reboot(power_loss: bool, keep: [bool; NNAMES], rot: [bool; NINODES]) {
    unsafe {
        if power_loss {
            let mut n = 0;
            while n < NNAMES {
                if !keep[n] {
                    FS.vol[n] = FS.dur[n];
                }
                n += 1;
            }
            let mut i = 0;
            while i < NINODES {
                if FS.synced_content[i] != FS.content[i] && rot[i] {
                    FS.content[i] = GARBAGE;
                }
                i += 1;
            }
        }
        FS.dur = FS.vol;
        let mut i = 0;
        while i < NINODES {
            FS.synced_content[i] = FS.content[i];
            i += 1;
        }
        FS.crashed = false;
        FS.crash_at = NEVER;
        FS.ops = 0;
    }
}


/// Minimal stand-in for the parts of std::io the persistence module uses.  std::io::Error is a tagged pointer
/// whose drop glue and `dyn Error` methods recurse through vtables; CBMC unwinds that recursion to the bound
/// at every `?` (measured: no verdict in 10 min for one persist call), so the error type is part of the model.
pub mod io {
    #[derive(Debug, Clone, Copy, PartialEq)]
    pub struct Error(pub u8); // 1 = crashed process, 2 = not found, 3 = invalid data
    impl std::fmt::Display for Error {
        fn fmt(&self, _f: &mut std::fmt::Formatter<'_>) -> std::fmt::Result {
            Ok(())
        }
    }
    impl std::error::Error for Error {}
    pub type Result<T> = core::result::Result<T, Error>;
    pub trait Write {
        fn write_all(&mut self, buf: &[u8]) -> Result<()>;
        fn flush(&mut self) -> Result<()> {
            Ok(())
        }
    }
    /// std::io::BufWriter: bytes stay in the buffer until flush() or drop; `get_ref`/`get_mut` reach the inner
    /// writer without flushing (so an fsync through get_ref() syncs a file that has not received the bytes yet).
    pub struct BufWriter<W: Write> {
        inner: Option<W>,
        pending: Option<Vec<u8>>,
    }
    impl<W: Write> BufWriter<W> {
        pub fn new(inner: W) -> Self {
            BufWriter { inner: Some(inner), pending: None }
        }
        pub fn with_capacity(_n: usize, inner: W) -> Self {
            Self::new(inner)
        }
        pub fn get_ref(&self) -> &W {
            self.inner.as_ref().unwrap()
        }
        pub fn get_mut(&mut self) -> &mut W {
            self.inner.as_mut().unwrap()
        }
        pub fn into_inner(mut self) -> core::result::Result<W, Error> {
            self.flush()?;
            Ok(self.inner.take().unwrap())
        }
    }
    impl<W: Write> Write for BufWriter<W> {
        fn write_all(&mut self, buf: &[u8]) -> Result<()> {
            // (contents are abstracted to their first byte; one pending chunk is enough)
            if self.pending.is_none() {
                self.pending = Some(buf.to_vec());
            }
            Ok(())
        }
        fn flush(&mut self) -> Result<()> {
            if let Some(p) = self.pending.take() {
                self.inner.as_mut().unwrap().write_all(&p)?;
            }
            Ok(())
        }
    }
    impl<W: Write> Drop for BufWriter<W> {
        fn drop(&mut self) {
            if self.inner.is_some() {
                let _ = self.flush();
            }
        }
    }
    pub struct Cursor(pub Vec<u8>);
    impl Cursor {
        pub fn new(v: Vec<u8>) -> Self {
            Cursor(v)
        }
        pub fn first_byte(&self) -> Option<u8> {
            if self.0.is_empty() { None } else { Some(self.0[0]) }
        }
    }
}

pub mod path {
    #[derive(Clone, Copy, Debug, PartialEq)]
    pub struct PathBuf {
        pub name: usize,
    }
    /// `&Path` and `&PathBuf` are the same thing here (std derefs one to the other).
    pub type Path = PathBuf;
    impl PathBuf {
        pub fn new<S: AsRef<str> + ?Sized>(_s: &S) -> PathBuf {
            PathBuf { name: 0 }
        }
        pub fn join<S: AsRef<str>>(&self, s: S) -> PathBuf {
            let s = s.as_ref();
            if self.name == 0 {
                return PathBuf { name: 1 };
            }
            if s.ends_with(".tmp") {
                PathBuf { name: 3 }
            } else if s.ends_with(".committed") {
                PathBuf { name: 4 }
            } else {
                PathBuf { name: 2 }
            }
        }
        pub fn exists(&self) -> bool {
            unsafe { self.name == 0 || super::FS.vol[self.name].is_some() }
        }
        pub fn to_path_buf(&self) -> PathBuf {
            *self
        }
    }
    impl AsRef<PathBuf> for PathBuf {
        fn as_ref(&self) -> &PathBuf {
            self
        }
    }
}

pub mod fs {
    use super::path::PathBuf;
    use super::io;
    use super::{new_inode, step, FS};

    pub struct File {
        inode: Option<u8>, // None: a directory handle
        dir: bool,
    }

    pub fn create_dir_all<P: AsRef<PathBuf>>(p: P) -> io::Result<()> {
        step()?;
        let n = p.as_ref().name;
        unsafe {
            if FS.vol[n].is_none() {
                FS.vol[n] = Some(new_inode());
            }
        }
        Ok(())
    }
    pub fn remove_file<P: AsRef<PathBuf>>(p: P) -> io::Result<()> {
        step()?;
        let n = p.as_ref().name;
        unsafe {
            if FS.vol[n].is_none() {
                return Err(io::Error(2));
            }
            FS.vol[n] = None;
        }
        Ok(())
    }
    pub fn rename<P: AsRef<PathBuf>, Q: AsRef<PathBuf>>(a: P, b: Q) -> io::Result<()> {
        step()?;
        let (a, b) = (a.as_ref().name, b.as_ref().name);
        unsafe {
            if FS.vol[a].is_none() {
                return Err(io::Error(2));
            }
            FS.vol[b] = FS.vol[a];
            FS.vol[a] = None;
        }
        Ok(())
    }
    pub fn read<P: AsRef<PathBuf>>(p: P) -> io::Result<Vec<u8>> {
        step()?;
        let n = p.as_ref().name;
        unsafe {
            match FS.vol[n] {
                Some(i) => Ok(vec![FS.content[i as usize]]),
                None => Err(io::Error(2)),
            }
        }
    }
    pub struct Metadata {
        len: u64,
    }
    impl Metadata {
        pub fn len(&self) -> u64 {
            self.len
        }
        pub fn is_file(&self) -> bool {
            true
        }
    }
    /// std::fs::metadata: existence + length (contents are one byte long in this model, 0 if empty)
    pub fn metadata<P: AsRef<PathBuf>>(p: P) -> io::Result<Metadata> {
        step()?;
        let n = p.as_ref().name;
        unsafe {
            match FS.vol[n] {
                Some(i) => Ok(Metadata { len: if FS.content[i as usize] == super::EMPTY { 0 } else { 1 } }),
                None => Err(io::Error(2)),
            }
        }
    }
    /// std::fs::write = create (truncate) + write_all, no fsync; two crash points.
    pub fn write<P: AsRef<PathBuf>, C: AsRef<[u8]>>(p: P, contents: C) -> io::Result<()> {
        use super::io::Write;
        let mut f = File::create(p)?;
        f.write_all(contents.as_ref())
    }
    /// std::fs::copy: the destination gets a NEW unsynced inode with the source's content.
    pub fn copy<P: AsRef<PathBuf>, Q: AsRef<PathBuf>>(a: P, b: Q) -> io::Result<u64> {
        use super::io::Write;
        let data = read(a)?;
        let mut f = File::create(b)?;
        f.write_all(&data)?;
        Ok(data.len() as u64)
    }
    impl File {
        pub fn create<P: AsRef<PathBuf>>(p: P) -> io::Result<File> {
            step()?;
            let n = p.as_ref().name;
            unsafe {
                // O_CREAT|O_TRUNC: an existing file is truncated in place (same inode), else a new inode
                let i = match FS.vol[n] {
                    Some(i) => {
                        FS.content[i as usize] = super::EMPTY;
                        i
                    }
                    None => {
                        let i = new_inode();
                        FS.vol[n] = Some(i);
                        i
                    }
                };
                Ok(File { inode: Some(i), dir: false })
            }
        }
        pub fn open<P: AsRef<PathBuf>>(p: P) -> io::Result<File> {
            step()?;
            let n = p.as_ref().name;
            unsafe {
                match FS.vol[n] {
                    Some(i) => Ok(File { inode: Some(i), dir: n <= 1 }),
                    None => Err(io::Error(2)),
                }
            }
        }
        pub fn sync_all(&self) -> io::Result<()> {
            step()?;
            unsafe {
                if self.dir {
                    FS.dur = FS.vol; // the directory's entries become durable
                } else if let Some(i) = self.inode {
                    FS.synced_content[i as usize] = FS.content[i as usize];
                }
            }
            Ok(())
        }
        pub fn sync_data(&self) -> io::Result<()> {
            self.sync_all()
        }
    }
    impl io::Write for File {
        fn write_all(&mut self, buf: &[u8]) -> io::Result<()> {
            let r = step();
            unsafe {
                if let Some(i) = self.inode {
                    if r.is_err() {
                        if FS.crash_now {
                            FS.content[i as usize] = super::GARBAGE; // torn write
                        }
                    } else {
                        FS.content[i as usize] = if buf.is_empty() { super::EMPTY } else { buf[0] };
                    }
                }
            }
            r
        }
        fn flush(&mut self) -> io::Result<()> {
            Ok(())
        }
    }
}
