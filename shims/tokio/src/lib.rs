//! Environment shim for `tokio` used by the slice crates (DESIGN.md R6).
//! Contract kept: an uncontended async lock always grants immediately; nothing ever pends.
//! (The real tokio makes kani-compiler ICE; concurrency between callers is outside every claim
//! that uses this shim and is stated so in the evidence.)
pub mod sync {
    use std::cell::UnsafeCell;
    use std::ops::{Deref, DerefMut};
    /// Lock that always grants: no borrow counting (there is exactly one thread and the futures never
    /// pend, so a guard is never held across another acquisition of the same lock in the code under
    /// test; if that changed, two live `&mut` would be the harness's problem and Kani's aliasing-free
    /// memory model would still execute it sequentially).
    pub struct RwLock<T>(UnsafeCell<T>);
    unsafe impl<T: Send> Sync for RwLock<T> {}
    unsafe impl<T: Send> Send for RwLock<T> {}
    pub struct RwLockReadGuard<'a, T>(&'a T);
    pub struct RwLockWriteGuard<'a, T>(&'a mut T);
    impl<'a, T> Deref for RwLockReadGuard<'a, T> {
        type Target = T;
        fn deref(&self) -> &T {
            self.0
        }
    }
    impl<'a, T> Deref for RwLockWriteGuard<'a, T> {
        type Target = T;
        fn deref(&self) -> &T {
            self.0
        }
    }
    impl<'a, T> DerefMut for RwLockWriteGuard<'a, T> {
        fn deref_mut(&mut self) -> &mut T {
            self.0
        }
    }
    impl<T> RwLock<T> {
        pub fn new(t: T) -> Self {
            RwLock(UnsafeCell::new(t))
        }
        pub fn read(&self) -> RwLockReadGuard<'_, T> {
            RwLockReadGuard(unsafe { &*self.0.get() })
        }
        pub fn write(&self) -> RwLockWriteGuard<'_, T> {
            RwLockWriteGuard(unsafe { &mut *self.0.get() })
        }
    }
    pub type Mutex<T> = RwLock<T>;
    impl<T> RwLock<T> {
        pub fn lock(&self) -> RwLockWriteGuard<'_, T> {
            RwLockWriteGuard(unsafe { &mut *self.0.get() })
        }
    }
}

/// Single-threaded driver for futures that never pend (they cannot, under the shim locks).
pub fn block_on<F: std::future::Future>(f: F) -> F::Output {
    use std::pin::pin;
    use std::task::{Context, Poll, RawWaker, RawWakerVTable, Waker};
    fn noop(_: *const ()) {}
    fn clone(_: *const ()) -> RawWaker {
        RawWaker::new(std::ptr::null(), &VT)
    }
    static VT: RawWakerVTable = RawWakerVTable::new(clone, noop, noop, noop);
    let waker = unsafe { Waker::from_raw(RawWaker::new(std::ptr::null(), &VT)) };
    let mut cx = Context::from_waker(&waker);
    let mut f = pin!(f);
    match f.as_mut().poll(&mut cx) {
        Poll::Ready(v) => v,
        Poll::Pending => panic!("VK-REPLAY-SHIM future pended under the uncontended-lock shim"),
    }
}
