//! Environment model for `std::collections::{HashMap, HashSet}` used by slice crates.
//!
//! hashbrown's SIMD group probing does not get through CBMC (measured: one `HashMap::insert` with a
//! concrete key runs past 5 minutes), so in slice crates the `use std::collections::{HashMap, HashSet}`
//! line is redirected here.  The contract kept is the one std documents: a finite map / set with unique
//! keys; iteration order unspecified (here: slot order).  Storage is a fixed array of `CAP` slots so
//! that no heap growth is involved; exceeding it is a harness-bound error, not a property failure.
pub const CAP: usize = 4;

/// stands in for the BuildHasher argument of `with_hasher` / `with_capacity_and_hasher` (there is no hashing)
#[derive(Default, Clone, Copy, Debug)]
pub struct NoHasher;

/// Straight-line expansion over the CAP slots (no loop, so the harness's unwind bound is spent on the
/// code under test only).
macro_rules! unroll {
    ($i:ident, $body:block) => {{
        { let $i: usize = 0; $body }
        { let $i: usize = 1; $body }
        { let $i: usize = 2; $body }
        { let $i: usize = 3; $body }
    }};
}

/// The four slots are four plain fields, not an array: Kani 0.68 / CBMC 6.11 lose writes of symbolic
/// values into an inline ARRAY that sits inside an enum variant (a six-line harness
/// `enum E { A([Option<(usize,i64)>;4]), B }; m[0] = Some((5, v)); assert key == 5` FAILS there and the native
/// replay of that "counterexample" passes; plain fields and heap arrays are fine, the latter 30x slower).
/// Found by the replay step on C30; see DESIGN.md §7.
#[derive(Clone)]
pub struct HashMap<K, V> {
    s0: Option<(K, V)>,
    s1: Option<(K, V)>,
    s2: Option<(K, V)>,
    s3: Option<(K, V)>,
}
impl<K: std::fmt::Debug, V: std::fmt::Debug> std::fmt::Debug for HashMap<K, V> {
    fn fmt(&self, f: &mut std::fmt::Formatter<'_>) -> std::fmt::Result {
        f.debug_map().entries(self.iter()).finish()
    }
}

impl<K, V> Default for HashMap<K, V> {
    fn default() -> Self {
        Self::new()
    }
}

impl<K, V> HashMap<K, V> {
    pub fn new() -> Self {
        HashMap { s0: None, s1: None, s2: None, s3: None }
    }
    #[inline(always)]
    fn slot(&self, i: usize) -> &Option<(K, V)> {
        match i {
            0 => &self.s0,
            1 => &self.s1,
            2 => &self.s2,
            _ => &self.s3,
        }
    }
    #[inline(always)]
    fn slot_mut(&mut self, i: usize) -> &mut Option<(K, V)> {
        match i {
            0 => &mut self.s0,
            1 => &mut self.s1,
            2 => &mut self.s2,
            _ => &mut self.s3,
        }
    }
    pub fn with_capacity(_n: usize) -> Self {
        Self::new()
    }
    pub fn with_capacity_and_hasher(_n: usize, _h: NoHasher) -> Self {
        Self::new()
    }
    pub fn with_hasher(_h: NoHasher) -> Self {
        Self::new()
    }
    pub fn reserve(&mut self, _n: usize) {}
    pub fn shrink_to_fit(&mut self) {}
    pub fn capacity(&self) -> usize {
        CAP
    }
    pub fn len(&self) -> usize {
        let mut n = 0;
        unroll!(i, {
            if (*self.slot(i)).is_some() {
                n += 1;
            }
        });
        n
    }
    pub fn is_empty(&self) -> bool {
        self.len() == 0
    }
    pub fn clear(&mut self) {
        unroll!(i, {
            (*self.slot_mut(i)) = None;
        });
    }
    pub fn iter(&self) -> Iter<'_, K, V> {
        Iter { m: self, i: 0 }
    }
    pub fn iter_mut(&mut self) -> impl Iterator<Item = (&K, &mut V)> {
        let HashMap { s0, s1, s2, s3 } = self;
        [s0, s1, s2, s3].into_iter().filter_map(|s| s.as_mut().map(|(k, v)| (&*k, v)))
    }
    pub fn keys(&self) -> Keys<'_, K, V> {
        Keys(self.iter())
    }
    pub fn values(&self) -> Values<'_, K, V> {
        Values(self.iter())
    }
    pub fn values_mut(&mut self) -> impl Iterator<Item = &mut V> {
        let HashMap { s0, s1, s2, s3 } = self;
        [s0, s1, s2, s3].into_iter().filter_map(|s| s.as_mut().map(|(_, v)| v))
    }
    pub fn retain<F: FnMut(&K, &mut V) -> bool>(&mut self, mut f: F) {
        unroll!(i, {
            let keep = match (*self.slot_mut(i)).as_mut() {
                Some((k, v)) => f(k, v),
                None => true,
            };
            if !keep {
                (*self.slot_mut(i)) = None;
            }
        });
    }
}

impl<K: PartialEq, V> HashMap<K, V> {
    fn find<Q: ?Sized>(&self, k: &Q) -> Option<usize>
    where
        K: std::borrow::Borrow<Q>,
        Q: PartialEq,
    {
        unroll!(i, {
            if let Some((kk, _)) = &(*self.slot(i)) {
                if kk.borrow() == k {
                    return Some(i);
                }
            }
        });
        None
    }
    pub fn insert(&mut self, k: K, v: V) -> Option<V> {
        if let Some(i) = self.find(&k) {
            let old = (*self.slot_mut(i)).take();
            (*self.slot_mut(i)) = Some((k, v));
            return old.map(|(_, v)| v);
        }
        unroll!(i, {
            if (*self.slot(i)).is_none() {
                (*self.slot_mut(i)) = Some((k, v));
                return None;
            }
        });
        panic!("VK-REPLAY-SHIM vkcoll capacity exceeded");
    }
    pub fn remove<Q: ?Sized>(&mut self, k: &Q) -> Option<V>
    where
        K: std::borrow::Borrow<Q>,
        Q: PartialEq,
    {
        match self.find(k) {
            Some(i) => (*self.slot_mut(i)).take().map(|(_, v)| v),
            None => None,
        }
    }
    pub fn get<Q: ?Sized>(&self, k: &Q) -> Option<&V>
    where
        K: std::borrow::Borrow<Q>,
        Q: PartialEq,
    {
        match self.find(k) {
            Some(i) => (*self.slot(i)).as_ref().map(|(_, v)| v),
            None => None,
        }
    }
    pub fn get_mut<Q: ?Sized>(&mut self, k: &Q) -> Option<&mut V>
    where
        K: std::borrow::Borrow<Q>,
        Q: PartialEq,
    {
        match self.find(k) {
            Some(i) => (*self.slot_mut(i)).as_mut().map(|(_, v)| v),
            None => None,
        }
    }
    pub fn contains_key<Q: ?Sized>(&self, k: &Q) -> bool
    where
        K: std::borrow::Borrow<Q>,
        Q: PartialEq,
    {
        self.find(k).is_some()
    }
    pub fn entry(&mut self, k: K) -> Entry<'_, K, V> {
        Entry { map: self, key: k }
    }
}

/// Index-based iterator (no pointer-range loop: CBMC folds the concrete index).
pub struct Iter<'a, K, V> {
    m: &'a HashMap<K, V>,
    i: usize,
}
impl<'a, K, V> Iterator for Iter<'a, K, V> {
    type Item = (&'a K, &'a V);
    fn next(&mut self) -> Option<Self::Item> {
        let mut out = None;
        unroll!(j, {
            if out.is_none() && j >= self.i {
                if let Some((k, v)) = &(*self.m.slot(j)) {
                    out = Some((k, v));
                    self.i = j + 1;
                }
            }
        });
        if out.is_none() {
            self.i = CAP;
        }
        out
    }
}
pub struct Keys<'a, K, V>(Iter<'a, K, V>);
impl<'a, K, V> Iterator for Keys<'a, K, V> {
    type Item = &'a K;
    fn next(&mut self) -> Option<&'a K> {
        self.0.next().map(|(k, _)| k)
    }
}
pub struct Values<'a, K, V>(Iter<'a, K, V>);
impl<'a, K, V> Iterator for Values<'a, K, V> {
    type Item = &'a V;
    fn next(&mut self) -> Option<&'a V> {
        self.0.next().map(|(_, v)| v)
    }
}
impl<'a, K, V> IntoIterator for &'a HashMap<K, V> {
    type Item = (&'a K, &'a V);
    type IntoIter = Iter<'a, K, V>;
    fn into_iter(self) -> Iter<'a, K, V> {
        self.iter()
    }
}

pub struct Entry<'a, K, V> {
    map: &'a mut HashMap<K, V>,
    key: K,
}
impl<'a, K: PartialEq, V> Entry<'a, K, V> {
    pub fn or_insert_with<F: FnOnce() -> V>(self, f: F) -> &'a mut V {
        let idx = match self.map.find(&self.key) {
            Some(i) => i,
            None => {
                let mut free = CAP;
                unroll!(i, {
                    if (*self.map.slot_mut(i)).is_none() && free == CAP {
                        free = i;
                    }
                });
                if free == CAP {
                    panic!("VK-REPLAY-SHIM vkcoll capacity exceeded");
                }
                (*self.map.slot_mut(free)) = Some((self.key, f()));
                free
            }
        };
        (*self.map.slot_mut(idx)).as_mut().map(|(_, v)| v).unwrap()
    }
    pub fn or_insert(self, v: V) -> &'a mut V {
        self.or_insert_with(|| v)
    }
    pub fn or_default(self) -> &'a mut V
    where
        V: Default,
    {
        self.or_insert_with(V::default)
    }
}

impl<K: PartialEq, V> FromIterator<(K, V)> for HashMap<K, V> {
    fn from_iter<I: IntoIterator<Item = (K, V)>>(it: I) -> Self {
        let mut m = HashMap::new();
        for (k, v) in it {
            m.insert(k, v);
        }
        m
    }
}
impl<K: PartialEq, V> Extend<(K, V)> for HashMap<K, V> {
    fn extend<I: IntoIterator<Item = (K, V)>>(&mut self, it: I) {
        for (k, v) in it {
            self.insert(k, v);
        }
    }
}
impl<K: PartialEq, V: PartialEq> PartialEq for HashMap<K, V> {
    fn eq(&self, o: &Self) -> bool {
        self.len() == o.len() && self.iter().all(|(k, v)| o.get(k) == Some(v))
    }
}

#[derive(Clone, Debug)]
pub struct HashSet<K> {
    m: HashMap<K, ()>,
}
impl<K> Default for HashSet<K> {
    fn default() -> Self {
        Self::new()
    }
}
impl<K> HashSet<K> {
    pub fn new() -> Self {
        HashSet { m: HashMap::new() }
    }
    pub fn with_capacity(_n: usize) -> Self {
        Self::new()
    }
    pub fn len(&self) -> usize {
        self.m.len()
    }
    pub fn is_empty(&self) -> bool {
        self.m.is_empty()
    }
    pub fn clear(&mut self) {
        self.m.clear()
    }
    pub fn iter(&self) -> Keys<'_, K, ()> {
        self.m.keys()
    }
    pub fn retain<F: FnMut(&K) -> bool>(&mut self, mut f: F) {
        self.m.retain(|k, _| f(k))
    }
}
impl<K: PartialEq> HashSet<K> {
    pub fn insert(&mut self, k: K) -> bool {
        if self.m.contains_key(&k) {
            false
        } else {
            self.m.insert(k, ());
            true
        }
    }
    pub fn remove<Q: ?Sized>(&mut self, k: &Q) -> bool
    where
        K: std::borrow::Borrow<Q>,
        Q: PartialEq,
    {
        self.m.remove(k).is_some()
    }
    pub fn contains<Q: ?Sized>(&self, k: &Q) -> bool
    where
        K: std::borrow::Borrow<Q>,
        Q: PartialEq,
    {
        self.m.contains_key(k)
    }
}
impl<'a, K> IntoIterator for &'a HashSet<K> {
    type Item = &'a K;
    type IntoIter = Keys<'a, K, ()>;
    fn into_iter(self) -> Keys<'a, K, ()> {
        self.iter()
    }
}
impl<K: PartialEq> FromIterator<K> for HashSet<K> {
    fn from_iter<I: IntoIterator<Item = K>>(it: I) -> Self {
        let mut s = HashSet::new();
        for k in it {
            s.insert(k);
        }
        s
    }
}
impl<K: PartialEq> Extend<K> for HashSet<K> {
    fn extend<I: IntoIterator<Item = K>>(&mut self, it: I) {
        for k in it {
            self.insert(k);
        }
    }
}
impl<K: PartialEq> PartialEq for HashSet<K> {
    fn eq(&self, o: &Self) -> bool {
        self.len() == o.len() && self.iter().all(|k| o.contains(k))
    }
}
