//! Environment shim for `chrono` (DESIGN.md R6): the wall clock returns a non-decreasing value.
use std::sync::atomic::{AtomicI64, Ordering};
static NOW: AtomicI64 = AtomicI64::new(1_700_000_000);
pub struct Utc;
pub struct DateTime(i64);
impl Utc {
    pub fn now() -> DateTime {
        DateTime(NOW.fetch_add(1, Ordering::Relaxed))
    }
}
impl DateTime {
    pub fn timestamp(&self) -> i64 {
        self.0
    }
    pub fn timestamp_millis(&self) -> i64 {
        self.0 * 1000
    }
}
