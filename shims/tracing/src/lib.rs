//! Environment shim for `tracing` (DESIGN.md R6): a log macro has no effect.
#[macro_export] macro_rules! trace { ($($t:tt)*) => { { if false { let _ = format_args!($($t)*); } } }; }
#[macro_export] macro_rules! debug { ($($t:tt)*) => { { if false { let _ = format_args!($($t)*); } } }; }
#[macro_export] macro_rules! info { ($($t:tt)*) => { { if false { let _ = format_args!($($t)*); } } }; }
#[macro_export] macro_rules! warn { ($($t:tt)*) => { { if false { let _ = format_args!($($t)*); } } }; }
#[macro_export] macro_rules! error { ($($t:tt)*) => { { if false { let _ = format_args!($($t)*); } } }; }
