"""C01 — read queries return exactly the rows openCypher defines (expression kernel only)."""
from ..driver import Plan, H

MOD = "query::executor::operator::verif_kani_c01"
ATTR = ("#[kani::unwind(6)]\n#[kani::stub(core::fmt::write, vk_fmt_write)]\n"
        "#[kani::stub(std::fmt::format, vk_fmt_format)]\n#[kani::stub(regex::Regex::new, vk_regex_new)]\n")
TAGS = {0: "Boolean", 1: "Integer", 2: "Float", 3: "String", 4: "Null", 5: "DateTime"}


def plan(tier):
    p = Plan("C01")
    p.injections = [("src/query/executor/operator.rs", "c01.rs", "verif_kani_c01", MOD)]
    gen = []

    def emit(fn, calls, shape, fam):
        gen.append("vk_proof! {\n" + ATTR + "fn %s() { %s }\n}\n" % (fn, " ".join(calls)))
        p.add(MOD, H(fn, shape, fam))

    gen.append("vk_proof! {\n" + ATTR + "fn c01_probe() { let a: bool = kani::any(); let b: bool = kani::any(); "
               "let r = eval_binary_op(&BinaryOp::And, Value::Property(PropertyValue::Boolean(a)), Value::Property(PropertyValue::Boolean(b))); "
               "assert!(tv(&r) == (a && b) as u8); vk_cover!(true, \"reach\"); std::mem::forget(r); }\n}\n")
    p.add(MOD, H("c01_probe", {}, "probe"))
    logic_pairs = [(a, b) for a in (0, 4) for b in (0, 4)]
    emit("c01_logic", ["logic(%d, %d);" % t for t in logic_pairs],
         {"operands": [[TAGS[a], TAGS[b]] for a, b in logic_pairs], "ops": "AND OR XOR NOT IS NULL IS NOT NULL"}, "logic")
    tags = (0, 1, 2, 3, 4) if tier == "quick" else (0, 1, 2, 3, 4, 5)
    pairs = [(a, b) for a in tags for b in tags]
    g = 5
    for i in range(0, len(pairs), g):
        chunk = pairs[i:i + g]
        emit("c01_compare_%d" % (i // g), ["compare(%d, %d);" % t for t in chunk],
             {"operands": [[TAGS[a], TAGS[b]] for a, b in chunk], "ops": "= <> < <= > >="}, "compare")
    emit("c01_int_arith", ["int_arith();"], {"operands": "Integer x Integer, all 64-bit", "ops": "+ - / % unary-"}, "int_arith")
    emit("c01_int_mul", ["int_mul();"], {"operands": "Integer x Integer, |x|,|y| <= 2^20 plus boundary factors", "ops": "*"}, "int_arith")
    p.gen["c01_gen.rs"] = "".join(gen)
    p.functions = ["query::executor::operator::{eval_binary_op, eval_unary_op, cypher_ordering}"]
    p.assumptions = [
        "kernel only: the shared scalar operator evaluation; operand variant tags concrete per call, payloads symbolic "
        "(64-bit integers/floats incl. NaN and infinities, booleans, one-character ASCII strings)",
        "the openCypher tables are written out in the harness (Kleene AND/OR/XOR/NOT; comparison with null is null; numeric "
        "comparison across Integer/Float through f64; ordering of incomparable types is null, equality false); the "
        "DateTime/Integer pairing is left open",
        "fmt stubbed; drop glue skipped",
    ]
    p.bound = "operand tags %s; all payload values; integer multiplication on |x|,|y| <= 2^20 plus boundary factors" % [TAGS[t] for t in tags]
    p.not_covered = ("pattern matching, planner rewrites, aggregation, ORDER BY/SKIP/LIMIT, multi-label scans, expression "
                     "evaluation beyond these operators, lists/maps/strings longer than one character — i.e. most of the "
                     "statement: planner + executor over GraphStore do not fit in CBMC (measured, DESIGN.md §1)")
    p.per_harness_timeout = 420 if tier == "quick" else 1500
    return p
