// C01 (expression kernel) — three-valued logic, comparisons and integer arithmetic of the executor's shared
// binary/unary operator evaluation.  Child module of src/query/executor/operator.rs (full crate).
// Operand tags are concrete per call, payloads symbolic (full 64-bit).  The openCypher tables are written out
// here, independently of the code.
#![allow(dead_code, unused_imports)]
include!("/verif/harness/vk_prelude.rs");

use super::*;
use std::cmp::Ordering;

/// `=~` (regex) is an arm of eval_binary_op that no harness here takes, but it makes the whole `regex` crate
/// reachable for code generation, and kani-compiler 0.68 crashes on it (rvalue.rs:1009, TryFromIntError).
/// The stub removes it from the build; it can never run (the operator is concrete in every harness).
#[cfg(kani)]
fn vk_regex_new(_re: &str) -> Result<regex::Regex, regex::Error> {
    kani::assume(false);
    unreachable!()
}

// tags: 0 Boolean, 1 Integer, 2 Float, 3 String(1 ASCII char), 4 Null, 5 DateTime
#[inline(always)]
fn mk(tag: u8) -> PropertyValue {
    match tag {
        0 => PropertyValue::Boolean(kani::any()),
        1 => PropertyValue::Integer(kani::any()),
        2 => PropertyValue::Float(kani::any()),
        3 => {
            let b: u8 = kani::any();
            kani::assume(b < 128);
            let mut s = String::new();
            s.push(b as char);
            PropertyValue::String(s)
        }
        4 => PropertyValue::Null,
        _ => PropertyValue::DateTime(kani::any()),
    }
}

/// three-valued truth value of a result: Some(true/false) or None (null); Err => panic marker 3
fn tv(r: &ExecutionResult<Value>) -> u8 {
    match r {
        Ok(Value::Property(PropertyValue::Boolean(true))) => 1,
        Ok(Value::Property(PropertyValue::Boolean(false))) => 0,
        Ok(Value::Property(PropertyValue::Null)) | Ok(Value::Null) => 2,
        Ok(_) => 4,
        Err(_) => 3,
    }
}
fn t3(p: &PropertyValue) -> u8 {
    match p {
        PropertyValue::Boolean(true) => 1,
        PropertyValue::Boolean(false) => 0,
        _ => 2,
    }
}

/// AND / OR / XOR / NOT over {true, false, null} x {true, false, null}: openCypher's Kleene tables.
pub fn logic(ta: u8, tb: u8) {
    let a = mk(ta);
    let b = mk(tb);
    let (x, y) = (t3(&a), t3(&b));
    let and = tv(&eval_binary_op(&BinaryOp::And, Value::Property(a.clone()), Value::Property(b.clone())));
    let or = tv(&eval_binary_op(&BinaryOp::Or, Value::Property(a.clone()), Value::Property(b.clone())));
    let xor = tv(&eval_binary_op(&BinaryOp::Xor, Value::Property(a.clone()), Value::Property(b.clone())));
    let not = tv(&eval_unary_op(&UnaryOp::Not, Value::Property(a.clone())));
    let want_and = if x == 0 || y == 0 { 0 } else if x == 1 && y == 1 { 1 } else { 2 };
    let want_or = if x == 1 || y == 1 { 1 } else if x == 0 && y == 0 { 0 } else { 2 };
    let want_xor = if x == 2 || y == 2 { 2 } else if x != y { 1 } else { 0 };
    let want_not = if x == 2 { 2 } else { 1 - x };
    assert!(and == want_and, "C01 AND differs from three-valued logic");
    assert!(or == want_or, "C01 OR differs from three-valued logic");
    assert!(xor == want_xor, "C01 XOR differs from three-valued logic");
    assert!(not == want_not, "C01 NOT differs from three-valued logic");
    let isnull = tv(&eval_unary_op(&UnaryOp::IsNull, Value::Property(a.clone())));
    let isnotnull = tv(&eval_unary_op(&UnaryOp::IsNotNull, Value::Property(a.clone())));
    assert!(isnull == (x == 2) as u8 && isnotnull == (x != 2) as u8, "C01 IS [NOT] NULL");
    vk_cover!(true, "reach");
    std::mem::forget((a, b));
}

/// Reference comparison of two scalars of the tags above: Some(ordering) when openCypher defines one.
fn ref_cmp(a: &PropertyValue, b: &PropertyValue) -> Option<Ordering> {
    use PropertyValue::*;
    match (a, b) {
        (Integer(x), Integer(y)) => Some(x.cmp(y)),
        (Float(x), Float(y)) => x.partial_cmp(y),
        (Integer(x), Float(y)) => (*x as f64).partial_cmp(y),
        (Float(x), Integer(y)) => x.partial_cmp(&(*y as f64)),
        (String(x), String(y)) => Some(x.cmp(y)),
        (Boolean(x), Boolean(y)) => Some(x.cmp(y)),
        (DateTime(x), DateTime(y)) => Some(x.cmp(y)),
        _ => None,
    }
}

/// = <> < <= > >= on a pair of scalars: null operand => null; comparable => the defined order; otherwise
/// `<`-family is null (not an error) and `=` is false / `<>` true.
pub fn compare(ta: u8, tb: u8) {
    let a = mk(ta);
    let b = mk(tb);
    let eq = tv(&eval_binary_op(&BinaryOp::Eq, Value::Property(a.clone()), Value::Property(b.clone())));
    let ne = tv(&eval_binary_op(&BinaryOp::Ne, Value::Property(a.clone()), Value::Property(b.clone())));
    let lt = tv(&eval_binary_op(&BinaryOp::Lt, Value::Property(a.clone()), Value::Property(b.clone())));
    let le = tv(&eval_binary_op(&BinaryOp::Le, Value::Property(a.clone()), Value::Property(b.clone())));
    let gt = tv(&eval_binary_op(&BinaryOp::Gt, Value::Property(a.clone()), Value::Property(b.clone())));
    let ge = tv(&eval_binary_op(&BinaryOp::Ge, Value::Property(a.clone()), Value::Property(b.clone())));
    if ta == 4 || tb == 4 {
        assert!(eq == 2 && ne == 2 && lt == 2 && le == 2 && gt == 2 && ge == 2, "C01 comparison with null is null");
    } else {
        assert!(eq <= 1 && ne == 1 - eq, "C01 = and <> are complementary booleans on non-null operands");
        // the pairing DateTime/Integer is left open (the engine treats a timestamp as its epoch integer)
        let open = (ta == 5 && tb == 1) || (ta == 1 && tb == 5);
        if !open {
            match ref_cmp(&a, &b) {
                Some(o) => {
                    assert!(lt == (o == Ordering::Less) as u8, "C01 < differs from the defined order");
                    assert!(le == (o != Ordering::Greater) as u8, "C01 <= differs from the defined order");
                    assert!(gt == (o == Ordering::Greater) as u8, "C01 > differs from the defined order");
                    assert!(ge == (o != Ordering::Less) as u8, "C01 >= differs from the defined order");
                    if ta == tb {
                        assert!(eq == (o == Ordering::Equal) as u8, "C01 = differs from the defined order");
                    }
                }
                None => {
                    let nan = matches!((&a, &b), (PropertyValue::Float(_), _) | (_, PropertyValue::Float(_))) && ta != 3 && tb != 3 && ta != 0 && tb != 0 && ta != 5 && tb != 5;
                    if nan {
                        // incomparable because of a NaN: every ordering comparison is false or null, = is false
                        assert!(lt != 1 && le != 1 && gt != 1 && ge != 1 && eq == 0, "C01 comparison with NaN is true");
                    } else {
                        assert!(lt == 2 && le == 2 && gt == 2 && ge == 2, "C01 ordering of incomparable types is not null");
                        assert!(eq == 0, "C01 values of different types are equal");
                    }
                }
            }
        }
    }
    vk_cover!(lt == 1, "reach lt");
    vk_cover!(true, "reach");
    std::mem::forget((a, b));
}

/// Integer arithmetic: never a panic (Kani's overflow / division checks are checks of this harness); the exact
/// mathematical result when it fits in i64, otherwise an error — never a silently different number.
pub fn int_arith() {
    let x: i64 = kani::any();
    let y: i64 = kani::any();
    let l = || Value::Property(PropertyValue::Integer(x));
    let r = || Value::Property(PropertyValue::Integer(y));
    let chk = |res: ExecutionResult<Value>, want: Option<i64>, what: &'static str| {
        match (&res, want) {
            (Ok(Value::Property(PropertyValue::Integer(v))), Some(w)) => assert!(*v == w, "C01 integer arithmetic returned another value"),
            (Ok(_), None) => assert!(false, "C01 integer overflow / division by zero returned a value"),
            (Err(_), None) => {}
            (Err(_), Some(_)) => assert!(false, "C01 representable integer result refused"),
            _ => assert!(false, "C01 integer arithmetic returned a non-integer"),
        }
        let _ = what;
        std::mem::forget(res);
    };
    chk(eval_binary_op(&BinaryOp::Add, l(), r()), x.checked_add(y), "+");
    chk(eval_binary_op(&BinaryOp::Sub, l(), r()), x.checked_sub(y), "-");
    chk(eval_binary_op(&BinaryOp::Div, l(), r()), x.checked_div(y), "/");
    chk(eval_binary_op(&BinaryOp::Mod, l(), r()), x.checked_rem(y), "%");
    chk(eval_unary_op(&UnaryOp::Minus, l()), x.checked_neg(), "unary -");
    vk_cover!(x.checked_add(y).is_none(), "reach overflow");
    vk_cover!(true, "reach");
}

/// Multiplication separately, on 32-bit-ranged operands plus the overflow boundary cases (a full 64x64
/// multiplier equivalence does not get through the SAT back end).
pub fn int_mul() {
    let x: i64 = kani::any();
    let y: i64 = kani::any();
    kani::assume((x >= -(1 << 20) && x <= (1 << 20)) || y == -1 || y == 0 || y == 1 || y == 2);
    kani::assume((y >= -(1 << 20) && y <= (1 << 20)) || x == i64::MIN || x == i64::MAX || x == 1);
    let res = eval_binary_op(&BinaryOp::Mul, Value::Property(PropertyValue::Integer(x)), Value::Property(PropertyValue::Integer(y)));
    match (&res, x.checked_mul(y)) {
        (Ok(Value::Property(PropertyValue::Integer(v))), Some(w)) => assert!(*v == w, "C01 integer arithmetic returned another value"),
        (Ok(_), None) => assert!(false, "C01 integer overflow / division by zero returned a value"),
        (Err(_), None) => {}
        _ => assert!(false, "C01 representable integer result refused"),
    }
    vk_cover!(x.checked_mul(y).is_none(), "reach overflow");
    std::mem::forget(res);
}

include!(concat!(env!("VK_GEN_DIR"), "/c01_gen.rs"));
